#!/bin/sh
# Builds the driver and the instrumenter, then the instrumented harness for
# /repo's current working tree. Offline; needs only the Go toolchain and the
# module cache already on disk.
set -e
GO=/opt/veriftools/go1.26.8/bin/go
[ -x "$GO" ] || GO=/root/go/pkg/mod/golang.org/toolchain@v0.0.1-go1.25.0.linux-amd64/bin/go
[ -z "${VCHECK_GO:-}" ] || GO="$VCHECK_GO"
export GOTOOLCHAIN=local GOFLAGS=-mod=mod GOPROXY=off GOSUMDB=off
export PATH="$(dirname "$GO"):$PATH"
V="${VCHECK_DIR:-/verif}"
mkdir -p "$V/bin" "$V/build" "$V/evidence" "$V/replays"
cd "$V/sim/tools"
"$GO" build -o "$V/bin/vcheck" ./cmd/vcheck
"$GO" build -o "$V/bin/instrument" ./cmd/instrument
cd "$V"
./bin/vcheck build

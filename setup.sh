#!/bin/sh
# Builds the driver and the instrumenter, then the instrumented harness for
# /repo's current working tree. Offline; needs only the Go toolchain and the
# module cache already on disk.
set -e
GO=/root/go/pkg/mod/golang.org/toolchain@v0.0.1-go1.25.0.linux-amd64/bin/go
[ -x "$GO" ] || GO=/opt/veriftools/go1.26.8/bin/go
export GOTOOLCHAIN=local GOFLAGS=-mod=mod GOPROXY=off GOSUMDB=off
export PATH="$(dirname "$GO"):$PATH"
mkdir -p /verif/bin /verif/build /verif/evidence /verif/replays
cd /verif/sim/tools
"$GO" build -o /verif/bin/vcheck ./cmd/vcheck
"$GO" build -o /verif/bin/instrument ./cmd/instrument
cd /verif
./bin/vcheck build

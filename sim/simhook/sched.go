package simhook

import (
	"bytes"
	"fmt"
	"runtime"
	"sort"
	"strconv"
	"strings"
	"sync"
	"sync/atomic"
	"testing/synctest"
	"time"
)

// Decision is one deviation from the default policy "keep running the current
// task; when it cannot run, take the lowest-id ready task". Tick is the value
// of the global hook counter at the decision; ticks at decisions are strictly
// increasing, so a list of Decisions is a complete, replayable schedule.
type Decision struct {
	Tick int64 `json:"t"`
	Task int32 `json:"k"`
}

// Fault is applied by the scheduler, with every task quiescent, when the hook
// counter reaches Tick.
type Fault struct {
	Tick int64  `json:"t"`
	Kind string `json:"kind"`
	Arg  int64  `json:"arg,omitempty"`
}

// Config fully determines a simulated execution (together with the code).
type Config struct {
	Seed     uint64 `json:"seed"`     // PRNG for strategy decisions and aux choices (select order)
	Strategy string `json:"strategy"` // random | pct | nonpreemptive | starve | rr | sync
	// SyncProb: strategy sync preempts in front of a lock acquisition with probability 1/SyncProb
	// and nowhere else (the classic place for check-then-act and lock-discipline defects)
	SyncProb int `json:"sync_prob,omitempty"`
	// PCTSync: strategy pct places its priority change points at lock acquisitions (the n-th
	// one of the run, n drawn below PCTLen) instead of at ticks
	PCTSync  bool  `json:"pct_sync,omitempty"`
	MeanGap  int   `json:"mean_gap,omitempty"`
	PCTDepth int   `json:"pct_depth,omitempty"`
	PCTLen   int64 `json:"pct_len,omitempty"` // estimated run length in ticks for change points
	Victim   int32 `json:"victim,omitempty"`
	// Replay, when Replaying is set, is followed instead of Strategy.
	Replaying bool       `json:"replaying,omitempty"`
	Replay    []Decision `json:"replay,omitempty"`
	Faults    []Fault    `json:"faults,omitempty"`
	// FairAfter: from this tick on the strategy is fair round robin (0 = never).
	FairAfter   int64  `json:"fair_after,omitempty"`
	MapSalt     uint64 `json:"map_salt,omitempty"`
	MaxTicks    int64  `json:"max_ticks,omitempty"`
	MaxSwitches int64  `json:"max_switches,omitempty"`
	// QuantumTicks/QuantumNs: every QuantumTicks hook ticks the fake clock is
	// advanced by QuantumNs, so that computation takes (a little) time.
	QuantumTicks int64 `json:"quantum_ticks,omitempty"`
	QuantumNs    int64 `json:"quantum_ns,omitempty"`
	// EndOnMain: the run ends when task 1 exits (an Elk process ends with its main thread).
	EndOnMain bool `json:"end_on_main,omitempty"`
	// OptionalYields enables the simhook.YO preemption points (statement level inside the symbol table).
	OptionalYields bool `json:"optional_yields,omitempty"`

	// OnEnd is called when the run has ended, before abandoned tasks are drained.
	OnEnd func() `json:"-"`
	// DrainUntil: after the end of a run that abandons tasks, ready tasks keep being
	// released (round robin, a few hundred ticks each) until this reports true: an
	// abandoned task must not stay parked inside a critical section of a process-global lock.
	DrainUntil func() bool            `json:"-"`
	FaultHook  func(f Fault)          `json:"-"`
	FailHook   func(name string) bool `json:"-"`
	// StateHook, if set, is called at every decision with a hash of the quiescent state.
	StateHook func(h uint64) `json:"-"`
}

const (
	stNew = iota
	stParked
	stRunning
	stBlocked
	stExited
)

type task struct {
	id         int32
	spawnLabel int32
	gate       chan struct{}
	state      int
	label      int32
	inBlock    bool
	enabled    func() bool
	prio       int64
	goid       int64
}

// Result of one simulated execution.
type Result struct {
	Outcome         string         `json:"outcome"` // ok | deadlock | steplimit | gopanic
	Ticks           int64          `json:"ticks"`
	Switches        int64          `json:"switches"`
	LockPoints      int64          `json:"lock_points"`
	Decisions       []Decision     `json:"decisions"`
	Tasks           int            `json:"tasks"`
	LabelHash       uint64         `json:"label_hash"`
	TraceHash       uint64         `json:"trace_hash"`
	FakeNs          int64          `json:"fake_ns"`
	State           string         `json:"state,omitempty"` // label of every live task at the end
	Origins         string         `json:"origins,omitempty"` // where every live task was spawned ("id:label")
	PanicVal        string         `json:"panic,omitempty"`
	PanicStack      string         `json:"panic_stack,omitempty"`
	PanicTask       int32          `json:"panic_task,omitempty"`
	LockWaits       int64          `json:"lock_waits"`
	RealBlocks      int64          `json:"real_blocks"`
	Uninstr         int64          `json:"uninstrumented_blocks"`
	Selects         int64          `json:"selects"`
	MapRanges       int64          `json:"map_ranges"`
	MapUncontrolled int64          `json:"map_ranges_uncontrolled"`
	FailEvals       int64          `json:"fail_evals"`
	Faults          map[string]int `json:"faults_fired,omitempty"`
	Probes          map[string]int `json:"probes,omitempty"`
	Abandoned       int            `json:"abandoned"`
	TokenViolations int64          `json:"token_violations,omitempty"`
	FirstViolation  string         `json:"first_violation,omitempty"`
	MaxReady        int            `json:"max_ready"`
}

// Sched is the token scheduler. Exactly one task runs at any instant.
type Sched struct {
	cfg Config
	gen uint32

	// owned by the token holder (and by the scheduler while everything is quiescent)
	ticks           int64
	countdown       int64
	syncN           uint64
	others          int // parked or new tasks other than the running one, as of the last decision or spawn
	pctSync         bool
	syncCount       int64
	syncState       uint64
	lhash           uint64
	lockWaits       int64
	selects         int64
	mapRanges       int64
	mapUncontrolled int64
	failEvals       int64
	auxState        uint64

	mu        sync.Mutex
	tasks     []*task
	cur       *task
	arrive    chan struct{}
	onceMu    sync.Mutex
	onceBusy  map[*sync.Once]struct{}
	probes    map[string]int
	panicVal  any
	panicStk  string
	panicTask int32
	mainDone  bool

	rng             uint64
	decisions       []Decision
	replayPos       int
	faultPos        int
	faultFired      map[string]int
	switches        int64
	realBlocks      int64
	uninstr         int64
	thash           uint64
	nextQuant       int64
	pctPoints       []int64
	pctPos          int
	pctLow          int64
	maxReady        int
	parks           int64
	tokenViolations int64
	firstViolation  string
	t0              time.Time
	labelName       func(int32) string
}

// NewSched creates a scheduler for one run. Must be called inside the bubble.
func NewSched(cfg Config) *Sched {
	if cfg.MeanGap <= 0 {
		cfg.MeanGap = 50
	}
	if cfg.MaxTicks <= 0 {
		cfg.MaxTicks = 50_000_000
	}
	if cfg.MaxSwitches <= 0 {
		cfg.MaxSwitches = 2_000_000
	}
	if cfg.QuantumTicks <= 0 {
		cfg.QuantumTicks = 20_000
	}
	if cfg.QuantumNs <= 0 {
		cfg.QuantumNs = int64(time.Millisecond)
	}
	s := &Sched{
		cfg:        cfg,
		arrive:     make(chan struct{}, 1),
		onceBusy:   map[*sync.Once]struct{}{},
		probes:     map[string]int{},
		faultFired: map[string]int{},
		rng:        splitmix(cfg.Seed ^ 0xA5A5A5A5),
		auxState:   splitmix(cfg.Seed ^ 0x5A5A5A5A5A),
		countdown:  1 << 60,
		t0:         time.Now(),
		thash:      14695981039346656037,
		lhash:      14695981039346656037,
		gen:        genCounter.Add(1),
	}
	s.nextQuant = cfg.QuantumTicks
	if cfg.Strategy == "sync" && !cfg.Replaying {
		s.syncN = uint64(max(cfg.SyncProb, 1))
		s.syncState = splitmix(cfg.Seed ^ 0x5eed5eed)
	}
	sort.SliceStable(s.cfg.Faults, func(i, j int) bool { return s.cfg.Faults[i].Tick < s.cfg.Faults[j].Tick })
	if cfg.Strategy == "pct" && !cfg.Replaying {
		d := cfg.PCTDepth
		if d < 1 {
			d = 1
		}
		l := cfg.PCTLen
		if l < 100 {
			l = 100
		}
		for i := 0; i < d-1; i++ {
			s.pctPoints = append(s.pctPoints, 1+int64(s.rand()%uint64(l)))
		}
		sort.Slice(s.pctPoints, func(i, j int) bool { return s.pctPoints[i] < s.pctPoints[j] })
		s.pctSync = cfg.PCTSync
	}
	return s
}

var genCounter atomic.Uint32

// Debug turns the sampled token-holder identity check into an exhaustive one.
var Debug = false

func (s *Sched) tok(id int32) int64 { return int64(s.gen)<<32 | int64(id) }

// RootToken returns the token for the root task created by SpawnRoot.
func (s *Sched) RootToken(id int32) int64 { return s.tok(id) }

// SetLabelNamer installs a function that turns label ids into readable text.
func (s *Sched) SetLabelNamer(f func(int32) string) { s.labelName = f }

func (s *Sched) rand() uint64 {
	s.rng = splitmix(s.rng)
	return s.rng
}

// aux is the stream for choices made by the running task (select order).
func (s *Sched) aux() uint64 {
	s.auxState = splitmix(s.auxState)
	return s.auxState
}

// Ticks returns the hook counter (for harness code running as a task).
func (s *Sched) Ticks() int64 { return s.ticks }

func (s *Sched) signal() {
	select {
	case s.arrive <- struct{}{}:
	default:
	}
}

func (s *Sched) spawn(label int32) int32 {
	s.mu.Lock()
	t := &task{id: int32(len(s.tasks) + 1), spawnLabel: label, gate: make(chan struct{}), state: stNew, label: label}
	if s.cfg.Strategy == "pct" {
		t.prio = int64(s.rand()>>2) + 1_000_000
	}
	s.tasks = append(s.tasks, t)
	s.others++
	s.mu.Unlock()
	if s.cfg.Strategy == "pct" && !s.cfg.Replaying && s.countdown > 2 {
		s.countdown = 2
	}
	return t.id
}

// SpawnRoot registers the first task (the harness's main body); call before Run.
func (s *Sched) SpawnRoot() int32 { return s.spawn(-1) }

func (s *Sched) start(tok int32) {
	s.mu.Lock()
	t := s.tasks[tok-1]
	t.state = stParked
	t.enabled = nil
	t.goid = goid()
	s.mu.Unlock()
	s.signal()
	<-t.gate
}

func goid() int64 {
	var buf [64]byte
	n := runtime.Stack(buf[:], false)
	b := buf[len("goroutine "):n]
	i := bytes.IndexByte(b, ' ')
	if i < 0 {
		return -1
	}
	id, _ := strconv.ParseInt(string(b[:i]), 10, 64)
	return id
}

func (s *Sched) exit(tok int32, r any, stack string) {
	s.mu.Lock()
	t := s.tasks[tok-1]
	t.state = stExited
	if tok == 1 {
		s.mainDone = true
	}
	if r != nil && s.panicVal == nil {
		s.panicVal = r
		s.panicStk = stack
		s.panicTask = tok
	}
	s.mu.Unlock()
	s.signal()
}

// parkCur parks the token holder until the scheduler releases it.
func (s *Sched) parkCur(label int32, enabled func() bool) {
	t := s.cur
	if t == nil {
		return
	}
	// identity check (the caller must be the goroutine that holds the token):
	// runtime.Stack costs a full traceback, so it is sampled unless Debug is set
	s.parks++
	if (Debug || s.parks&63 == 0) && goid() != t.goid {
		g := goid()
		// a goroutine that does not hold the token reached a hook: some
		// blocking operation or goroutine start escaped the instrumenter.
		s.mu.Lock()
		s.tokenViolations++
		if s.firstViolation == "" {
			s.firstViolation = fmt.Sprintf("goroutine %d at %s while task %d (goroutine %d) holds the token", g, s.name(label), t.id, t.goid)
		}
		s.mu.Unlock()
		return
	}
	s.mu.Lock()
	t.state = stParked
	t.label = label
	t.enabled = enabled
	s.mu.Unlock()
	s.signal()
	<-t.gate
}

func (s *Sched) preempt(label int32) { s.parkCur(label, nil) }

func (s *Sched) preemptEnabled(label int32, en func() bool) { s.parkCur(label, en) }

func (s *Sched) unblock(tok int32, label int32) {
	s.mu.Lock()
	t := s.tasks[tok-1]
	t.inBlock = false
	if t.state != stBlocked {
		// never lost the token
		s.mu.Unlock()
		return
	}
	t.state = stParked
	t.label = label
	t.enabled = nil
	s.mu.Unlock()
	s.signal()
	<-t.gate
}

func (s *Sched) name(l int32) string {
	if l < 0 {
		return "start"
	}
	if s.labelName != nil {
		return s.labelName(l)
	}
	return fmt.Sprint(l)
}

func (s *Sched) stateVector() string {
	var parts []string
	for _, t := range s.tasks {
		if t.state == stExited {
			continue
		}
		st := "?"
		switch t.state {
		case stNew:
			st = "new"
		case stParked:
			st = "ready"
			if t.enabled != nil && !t.enabled() {
				st = "lockwait"
			}
		case stRunning:
			st = "running"
		case stBlocked:
			st = "blocked"
		}
		parts = append(parts, fmt.Sprintf("%d:%s@%s", t.id, st, s.name(t.label)))
	}
	return strings.Join(parts, " ")
}

// originVector lists, for every live task, the label of the go statement that created it.
func (s *Sched) originVector() string {
	var parts []string
	for _, t := range s.tasks {
		if t.state == stExited {
			continue
		}
		o := "root"
		if t.spawnLabel >= 0 {
			o = s.name(t.spawnLabel)
		}
		parts = append(parts, fmt.Sprintf("%d:%s", t.id, o))
	}
	return strings.Join(parts, " ")
}

func (s *Sched) stateHash() uint64 {
	h := uint64(14695981039346656037)
	for _, t := range s.tasks {
		h = (h ^ uint64(t.state)) * 1099511628211
		h = (h ^ uint64(uint32(t.label))) * 1099511628211
	}
	return h
}

func (s *Sched) result(outcome string) Result {
	r := Result{
		Outcome: outcome, Ticks: s.ticks, Switches: s.switches, LockPoints: s.syncCount, Decisions: s.decisions,
		Tasks: len(s.tasks), LabelHash: s.lhash, TraceHash: s.thash,
		FakeNs:    int64(time.Since(s.t0)),
		LockWaits: s.lockWaits, RealBlocks: s.realBlocks, Uninstr: s.uninstr,
		Selects: s.selects, MapRanges: s.mapRanges, MapUncontrolled: s.mapUncontrolled, FailEvals: s.failEvals,
		Faults: s.faultFired, Probes: s.probes, MaxReady: s.maxReady,
		TokenViolations: s.tokenViolations, FirstViolation: s.firstViolation,
	}
	for _, t := range s.tasks {
		if t.state != stExited {
			r.Abandoned++
		}
	}
	if outcome != "ok" {
		r.State = s.stateVector()
		r.Origins = s.originVector()
	}
	if s.panicVal != nil {
		r.PanicVal = fmt.Sprint(s.panicVal)
		r.PanicStack = s.panicStk
		r.PanicTask = s.panicTask
	}
	return r
}

// Run drives the tasks until the run ends. It must be called from the bubble's
// root goroutine. It returns rather than panics; tasks still parked or blocked
// are abandoned (the caller recovers synctest's end-of-bubble panic).
func (s *Sched) Run() Result {
	r := s.run()
	if s.cfg.OnEnd != nil {
		s.cfg.OnEnd()
	}
	if r.Abandoned > 0 && s.cfg.DrainUntil != nil {
		s.drain()
	}
	return r
}

// drain lets abandoned tasks run a little further so that none of them stays
// parked while holding a process-global lock. Nothing it does is recorded.
func (s *Sched) drain() {
	for round := 0; round < 200; round++ {
		synctest.Wait()
		if s.cfg.DrainUntil() {
			return
		}
		s.mu.Lock()
		if c := s.cur; c != nil && c.state == stRunning {
			c.state = stBlocked
			s.cur = nil
		}
		var ready []*task
		for _, t := range s.tasks {
			if t.state == stParked && (t.enabled == nil || t.enabled()) {
				ready = append(ready, t)
			}
		}
		s.mu.Unlock()
		if len(ready) == 0 {
			return
		}
		for _, t := range ready {
			s.mu.Lock()
			t.state = stRunning
			t.enabled = nil
			s.cur = t
			s.countdown = 300
			s.mu.Unlock()
			t.gate <- struct{}{}
			synctest.Wait()
			s.mu.Lock()
			if t.state == stRunning {
				t.state = stBlocked
			}
			s.cur = nil
			s.mu.Unlock()
		}
	}
}

func (s *Sched) run() Result {
	horizon := 2000 * time.Hour
	for {
		synctest.Wait()
		s.mu.Lock()
		curReady := false
		if c := s.cur; c != nil {
			switch c.state {
			case stRunning:
				c.state = stBlocked
				s.realBlocks++
				if !c.inBlock {
					s.uninstr++
				}
				s.cur = nil
			case stExited:
				s.cur = nil
			}
		}
		if s.panicVal != nil {
			r := s.result("gopanic")
			s.mu.Unlock()
			return r
		}
		live := 0
		for _, t := range s.tasks {
			if t.state != stExited {
				live++
			}
		}
		if live == 0 || (s.cfg.EndOnMain && s.mainDone) {
			r := s.result("ok")
			s.mu.Unlock()
			return r
		}
		// fake time for computation
		if s.ticks >= s.nextQuant {
			n := (s.ticks-s.nextQuant)/s.cfg.QuantumTicks + 1
			s.nextQuant += n * s.cfg.QuantumTicks
			s.mu.Unlock()
			time.Sleep(time.Duration(n * s.cfg.QuantumNs))
			continue
		}
		// faults
		if s.faultPos < len(s.cfg.Faults) && s.cfg.Faults[s.faultPos].Tick <= s.ticks {
			f := s.cfg.Faults[s.faultPos]
			s.faultPos++
			s.faultFired[f.Kind]++
			s.mu.Unlock()
			if f.Kind == "clockjump" {
				time.Sleep(time.Duration(f.Arg))
			} else if s.cfg.FaultHook != nil {
				s.cfg.FaultHook(f)
			}
			continue
		}
		var ready []*task
		for _, t := range s.tasks {
			if t.state == stParked && (t.enabled == nil || t.enabled()) {
				ready = append(ready, t)
				if t == s.cur {
					curReady = true
				}
			}
		}
		if len(ready) == 0 && s.faultPos < len(s.cfg.Faults) {
			// nothing can run: a pending fault arrives now (a cancel while every
			// task is blocked, a clock jump while everybody sleeps)
			if t := s.cfg.Faults[s.faultPos].Tick; t > s.ticks {
				s.ticks = t
			}
			s.mu.Unlock()
			continue
		}
		if len(ready) == 0 {
			s.mu.Unlock()
			select {
			case <-s.arrive:
			default:
			}
			// anything arriving between Wait and here has signalled; re-check once
			synctest.Wait()
			s.mu.Lock()
			any := false
			for _, t := range s.tasks {
				if t.state == stParked && (t.enabled == nil || t.enabled()) {
					any = true
				}
			}
			s.mu.Unlock()
			if any {
				continue
			}
			select {
			case <-s.arrive:
				continue
			case <-time.After(horizon):
				s.mu.Lock()
				r := s.result("deadlock")
				s.mu.Unlock()
				return r
			}
		}
		if len(ready) > s.maxReady {
			s.maxReady = len(ready)
		}
		if !curReady {
			s.ticks++ // forced decision: gets its own tick
		}
		if s.ticks > s.cfg.MaxTicks || s.switches > s.cfg.MaxSwitches {
			r := s.result("steplimit")
			s.mu.Unlock()
			return r
		}
		def := ready[0]
		if curReady {
			def = s.cur
		}
		pick := def
		var gap int64 = 1 << 60
		if s.cfg.Replaying {
			if s.replayPos < len(s.cfg.Replay) && s.cfg.Replay[s.replayPos].Tick <= s.ticks {
				want := s.cfg.Replay[s.replayPos].Task
				s.replayPos++
				for _, t := range ready {
					if t.id == want {
						pick = t
					}
				}
			}
			if s.replayPos < len(s.cfg.Replay) {
				gap = s.cfg.Replay[s.replayPos].Tick - s.ticks
			}
		} else {
			pick, gap = s.choose(ready, def)
		}
		if pick != def {
			s.decisions = append(s.decisions, Decision{Tick: s.ticks, Task: pick.id})
		}
		if s.faultPos < len(s.cfg.Faults) {
			if g := s.cfg.Faults[s.faultPos].Tick - s.ticks; g < gap {
				gap = g
			}
		}
		if g := s.nextQuant - s.ticks; g < gap {
			gap = g
		}
		if gap < 1 {
			gap = 1
		}
		if pick != s.cur {
			s.switches++
		}
		s.thash = (s.thash ^ uint64(s.ticks)) * 1099511628211
		s.thash = (s.thash ^ uint64(pick.id)) * 1099511628211
		s.thash = (s.thash ^ uint64(uint32(pick.label))) * 1099511628211
		if s.cfg.StateHook != nil {
			s.cfg.StateHook(s.stateHash())
		}
		s.others = 0
		for _, t := range s.tasks {
			if t != pick && (t.state == stParked || t.state == stNew) {
				s.others++
			}
		}
		pick.state = stRunning
		pick.enabled = nil
		s.cur = pick
		s.countdown = gap
		s.mu.Unlock()
		pick.gate <- struct{}{}
	}
}

// syncPoint is asked by the lock hooks: should the running task be preempted here
// although its time slice has not run out? Only strategy sync says yes, from its own
// stream, so that the streams of the other choices do not depend on it.
func (s *Sched) syncPoint() bool {
	if s.others == 0 {
		// nobody else could run at the last scheduling decision and nothing was spawned
		// since: a preemption here would change nothing (this is what keeps the change
		// points out of long sequential phases)
		return false
	}
	s.syncCount++
	if s.pctSync {
		if s.pctPos < len(s.pctPoints) && s.pctPoints[s.pctPos] <= s.syncCount {
			s.pctPos++
			if s.cur != nil {
				s.pctLow++
				s.cur.prio = 1_000_000 - s.pctLow
			}
			return true
		}
		return false
	}
	if s.syncN == 0 {
		return false
	}
	s.syncState = splitmix(s.syncState)
	return s.syncState%s.syncN == 0
}

func (s *Sched) geometric(mean int) int64 {
	// 1 + uniform in [0, 2*mean): cheap, same mean
	return 1 + int64(s.rand()%uint64(2*mean))
}

func (s *Sched) choose(ready []*task, def *task) (*task, int64) {
	strat := s.cfg.Strategy
	if s.cfg.FairAfter > 0 && s.ticks >= s.cfg.FairAfter {
		strat = "rr"
	}
	switch strat {
	case "nonpreemptive":
		if def == s.cur && s.cur != nil {
			return def, 1 << 60
		}
		return ready[s.rand()%uint64(len(ready))], 1 << 60
	case "sync":
		return ready[s.rand()%uint64(len(ready))], 1 << 60
	case "rr":
		pick := ready[0]
		if s.cur != nil {
			for _, t := range ready {
				if t.id > s.cur.id {
					pick = t
					break
				}
			}
		}
		return pick, int64(s.cfg.MeanGap)
	case "starve":
		var cand []*task
		for _, t := range ready {
			if t.id != s.cfg.Victim {
				cand = append(cand, t)
			}
		}
		if len(cand) == 0 {
			cand = ready
		}
		return cand[s.rand()%uint64(len(cand))], s.geometric(s.cfg.MeanGap)
	case "pct":
		for !s.pctSync && s.pctPos < len(s.pctPoints) && s.pctPoints[s.pctPos] <= s.ticks {
			s.pctPos++
			if s.cur != nil {
				s.pctLow++
				s.cur.prio = 1_000_000 - s.pctLow
			}
		}
		pick := ready[0]
		for _, t := range ready {
			if t.prio > pick.prio {
				pick = t
			}
		}
		var gap int64 = 1 << 60
		if !s.pctSync && s.pctPos < len(s.pctPoints) {
			gap = s.pctPoints[s.pctPos] - s.ticks
		}
		return pick, gap
	default: // random
		return ready[s.rand()%uint64(len(ready))], s.geometric(s.cfg.MeanGap)
	}
}

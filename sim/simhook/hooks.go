// Package simhook is the seam between instrumented elk code and the
// deterministic scheduler. It is copied into the scratch copy of /repo as
// github.com/elk-language/elk/simhook by the check's build step; nothing in
// /repo itself refers to it. With no scheduler installed every hook is one
// atomic load and a return.
package simhook

import (
	"fmt"
	"iter"
	"reflect"
	"runtime/debug"
	"sort"
	"sync"
	"sync/atomic"
	"unsafe"
)

var active atomic.Int32

// S is the installed scheduler (valid while active != 0).
var S *Sched

// Install makes s the scheduler consulted by every hook.
func Install(s *Sched) {
	S = s
	active.Store(1)
}

// Uninstall turns all hooks back into no-ops.
func Uninstall() {
	active.Store(0)
}

// Active reports whether a scheduler is installed.
func Active() bool { return active.Load() != 0 }

// Y is a preemption point. Called only by the task that holds the run token.
func Y(label int32) {
	if active.Load() == 0 {
		return
	}
	s := S
	s.ticks++
	s.lhash = (s.lhash ^ uint64(uint32(label))) * 1099511628211
	if TraceOn {
		Trace = append(Trace, label)
	}
	s.countdown--
	if s.countdown > 0 {
		return
	}
	s.preempt(label)
}

// TraceOn makes every hook call append its label to Trace (debugging aid for
// the determinism self-test: diff two traces to find the first divergence).
var TraceOn bool
var Trace []int32

// YO is an optional preemption point: it only exists for runs that ask for it
// (Config.OptionalYields); for all other runs it costs nothing and is not counted.
func YO(label int32) {
	if active.Load() == 0 {
		return
	}
	if !S.cfg.OptionalYields {
		return
	}
	Y(label)
}

func tick(s *Sched, label int32) {
	s.ticks++
	s.lhash = (s.lhash ^ uint64(uint32(label))) * 1099511628211
	if TraceOn {
		Trace = append(Trace, label)
	}
	s.countdown--
}

// BeforeLock is placed in front of every sync.Mutex.Lock.
func BeforeLock(m *sync.Mutex, label int32) {
	if active.Load() == 0 {
		return
	}
	s := S
	tick(s, label)
	if m.TryLock() {
		m.Unlock()
		if s.syncPoint() || s.countdown <= 0 {
			s.preemptEnabled(label, func() bool {
				if m.TryLock() {
					m.Unlock()
					return true
				}
				return false
			})
		}
		return
	}
	s.lockWaits++
	s.parkCur(label, func() bool {
		if m.TryLock() {
			m.Unlock()
			return true
		}
		return false
	})
}

// BeforeWLock is placed in front of every sync.RWMutex.Lock.
func BeforeWLock(m *sync.RWMutex, label int32) {
	if active.Load() == 0 {
		return
	}
	s := S
	tick(s, label)
	en := func() bool {
		if m.TryLock() {
			m.Unlock()
			return true
		}
		return false
	}
	if en() {
		if s.syncPoint() || s.countdown <= 0 {
			s.preemptEnabled(label, en)
		}
		return
	}
	s.lockWaits++
	s.parkCur(label, en)
}

// BeforeRLock is placed in front of every sync.RWMutex.RLock.
func BeforeRLock(m *sync.RWMutex, label int32) {
	if active.Load() == 0 {
		return
	}
	s := S
	tick(s, label)
	en := func() bool {
		if m.TryRLock() {
			m.RUnlock()
			return true
		}
		return false
	}
	if en() {
		if s.syncPoint() || s.countdown <= 0 {
			s.preemptEnabled(label, en)
		}
		return
	}
	s.lockWaits++
	s.parkCur(label, en)
}

// BeforeWGWait is placed in front of sync.WaitGroup.Wait: the task parks in the
// scheduler until the counter of the wait group is zero, so that the real Wait
// that follows returns immediately. (Go 1.25's synctest treats a WaitGroup.Wait
// as durably blocking only while the wait group is associated with the bubble;
// under real concurrency between the waiter entering Wait and the task that
// calls Done this was observed to leave the waiter blocked non-durably, which
// stalls synctest.Wait and with it the whole simulation.) The counter is read
// from the internal state word; if its layout is not the expected one the hook
// does nothing and the wait blocks for real, as before.
func BeforeWGWait(wg *sync.WaitGroup, label int32) {
	if active.Load() == 0 || !wgLayoutOK {
		return
	}
	s := S
	tick(s, label)
	en := func() bool { return wgCounter(wg) <= 0 }
	if en() {
		if s.countdown <= 0 {
			s.preemptEnabled(label, en)
		}
		return
	}
	s.lockWaits++
	s.parkCur(label, en)
}

func wgCounter(wg *sync.WaitGroup) int32 {
	st := (*atomic.Uint64)(unsafe.Pointer(wg)).Load()
	return int32(st >> 32)
}

var wgLayoutOK = func() bool {
	var w sync.WaitGroup
	if unsafe.Sizeof(w) < 12 || wgCounter(&w) != 0 {
		return false
	}
	w.Add(3)
	ok := wgCounter(&w) == 3
	w.Add(-2)
	ok = ok && wgCounter(&w) == 1
	w.Add(-1)
	return ok && wgCounter(&w) == 0
}()

type tryLocker interface {
	TryLock() bool
	Unlock()
}

type tryRLocker interface {
	TryRLock() bool
	RUnlock()
}

// BeforeLockAny handles locks reached through embedding or interfaces.
func BeforeLockAny(m any, label int32) {
	if active.Load() == 0 {
		return
	}
	s := S
	tick(s, label)
	tl, ok := m.(tryLocker)
	if !ok {
		if s.syncPoint() || s.countdown <= 0 {
			s.preempt(label)
		}
		return
	}
	en := func() bool {
		if tl.TryLock() {
			tl.Unlock()
			return true
		}
		return false
	}
	if en() {
		if s.syncPoint() || s.countdown <= 0 {
			s.preemptEnabled(label, en)
		}
		return
	}
	s.lockWaits++
	s.parkCur(label, en)
}

// BeforeRLockAny is BeforeLockAny for read locks.
func BeforeRLockAny(m any, label int32) {
	if active.Load() == 0 {
		return
	}
	s := S
	tick(s, label)
	tl, ok := m.(tryRLocker)
	if !ok {
		if s.syncPoint() || s.countdown <= 0 {
			s.preempt(label)
		}
		return
	}
	en := func() bool {
		if tl.TryRLock() {
			tl.RUnlock()
			return true
		}
		return false
	}
	if en() {
		if s.syncPoint() || s.countdown <= 0 {
			s.preemptEnabled(label, en)
		}
		return
	}
	s.lockWaits++
	s.parkCur(label, en)
}

// Spawn is called by the parent just before a go statement.
func Spawn(label int32) int64 {
	if active.Load() == 0 {
		return 0
	}
	s := S
	tick(s, label)
	return s.tok(s.spawn(label))
}

// stale reports whether tok was issued by a scheduler that is no longer the
// installed one: the goroutine belongs to an abandoned run and must never run
// again.
func stale(tok int64) bool {
	if active.Load() == 0 {
		return true
	}
	return S.gen != uint32(tok>>32)
}

// Start is the first thing a spawned goroutine does.
func Start(tok int64) {
	if tok == 0 {
		return
	}
	if stale(tok) {
		select {}
	}
	S.start(int32(tok))
}

// Exit is deferred by every spawned goroutine. It records a Go panic that
// reaches the top of the goroutine (in a real run that kills the process).
func Exit(tok int64) {
	if tok == 0 {
		return
	}
	r := recover()
	if stale(tok) {
		return
	}
	var stack string
	if r != nil {
		stack = string(debug.Stack())
	}
	S.exit(int32(tok), r, stack)
}

// Block announces an operation that may really block. The returned token is
// handed to Unblock right after the operation.
func Block(label int32) int64 {
	if active.Load() == 0 {
		return 0
	}
	s := S
	tick(s, label)
	if s.countdown <= 0 {
		s.preempt(label)
	}
	t := s.cur
	if t == nil {
		return 0
	}
	t.inBlock = true
	t.label = label
	return s.tok(t.id)
}

// Unblock follows the operation announced by Block.
func Unblock(tok int64, label int32) {
	if tok == 0 {
		return
	}
	if stale(tok) {
		select {}
	}
	S.unblock(int32(tok), label)
}

// Guard is deferred right after a Block whose operation can panic while the
// task is really blocked (a send on a channel that gets closed): the panic
// skips the Unblock that follows the operation, so the woken goroutine would
// run deferred code without holding the token. Guard performs the missing
// Unblock before any other deferred function runs.
func Guard(tok int64, label int32) {
	if tok == 0 {
		return
	}
	if stale(tok) {
		select {}
	}
	s := S
	s.mu.Lock()
	t := s.tasks[int32(tok)-1]
	pending := t.inBlock
	s.mu.Unlock()
	if pending {
		s.unblock(int32(tok), label)
	}
}

// SelOrder returns the order in which the comm clauses of a select are probed.
func SelOrder(label int32, n int) []int {
	o := make([]int, n)
	for i := range o {
		o[i] = i
	}
	if active.Load() == 0 {
		return nil
	}
	s := S
	s.selects++
	if n > 1 {
		for i := n - 1; i > 0; i-- {
			j := int(s.aux() % uint64(i+1))
			o[i], o[j] = o[j], o[i]
		}
	}
	return o
}

// DetSelect determinises reflect.Select: the cases are probed one at a time
// in PRNG order; if one fires, a substitute case list is returned on which the
// real reflect.Select call yields exactly the same (index, value, ok). If none
// fires the original list is returned and the real call blocks (or takes its
// default case).
func DetSelect(cases []reflect.SelectCase, label int32) []reflect.SelectCase {
	if active.Load() == 0 {
		return cases
	}
	s := S
	s.selects++
	n := len(cases)
	order := make([]int, 0, n)
	for i, c := range cases {
		if c.Dir == reflect.SelectDefault {
			continue
		}
		if !c.Chan.IsValid() || c.Chan.IsNil() {
			continue
		}
		order = append(order, i)
	}
	for i := len(order) - 1; i > 0; i-- {
		j := int(s.aux() % uint64(i+1))
		order[i], order[j] = order[j], order[i]
	}
	for _, i := range order {
		c := cases[i]
		probe := []reflect.SelectCase{c, {Dir: reflect.SelectDefault}}
		var idx int
		var recv reflect.Value
		var ok bool
		panicked := func() (p bool) {
			defer func() {
				if r := recover(); r != nil {
					p = true
				}
			}()
			idx, recv, ok = reflect.Select(probe)
			return false
		}()
		if panicked {
			// send on closed channel: let the real call panic the same way
			sub := make([]reflect.SelectCase, n)
			for k := range sub {
				sub[k] = reflect.SelectCase{Dir: reflect.SelectRecv}
			}
			sub[i] = c
			return sub
		}
		if idx != 0 {
			continue
		}
		sub := make([]reflect.SelectCase, n)
		for k := range sub {
			// a receive from a nil channel never proceeds
			sub[k] = reflect.SelectCase{Dir: reflect.SelectRecv}
		}
		et := c.Chan.Type().Elem()
		tmp := reflect.MakeChan(reflect.ChanOf(reflect.BothDir, et), 1)
		if c.Dir == reflect.SelectRecv {
			if ok {
				tmp.Send(recv)
			} else {
				tmp.Close()
			}
			sub[i] = reflect.SelectCase{Dir: reflect.SelectRecv, Chan: tmp}
		} else {
			sub[i] = reflect.SelectCase{Dir: reflect.SelectSend, Chan: tmp, Send: c.Send}
		}
		return sub
	}
	return cases
}

// Range replaces "range m" over a Go map. With no scheduler installed it is the
// native iteration. Under the scheduler the keys are visited in an order that
// is a function of the key set and of the run's map salt only: sorted (by
// String() when the key type has one, so that symbol ids assigned by earlier
// runs in the process do not matter), then permuted by the salt; keys deleted
// meanwhile are skipped, which is one of the behaviours Go allows. Key types
// that cannot be ordered (pointers, interfaces, structs) keep the native order
// and are counted.
func Range[M ~map[K]V, K comparable, V any](m M, label int32) iter.Seq2[K, V] {
	return func(yield func(K, V) bool) {
		if active.Load() == 0 || len(m) < 2 {
			for k, v := range m {
				if !yield(k, v) {
					return
				}
			}
			return
		}
		s := S
		keys := make([]K, 0, len(m))
		for k := range m {
			keys = append(keys, k)
		}
		var zero K
		if _, ok := any(zero).(fmt.Stringer); ok {
			names := make([]string, len(keys))
			for i, k := range keys {
				names[i] = any(k).(fmt.Stringer).String()
			}
			sort.Sort(&byName[K]{keys, names})
		} else if _, ok := any(zero).(interface{ Name() string }); ok {
			// pointers to named things (classes, modules, methods): ordered by their name
			names := make([]string, len(keys))
			for i, k := range keys {
				names[i] = any(k).(interface{ Name() string }).Name()
			}
			sort.Sort(&byName[K]{keys, names})
		} else {
			switch reflect.TypeOf(zero).Kind() {
			case reflect.String:
				sort.Slice(keys, func(i, j int) bool { return reflect.ValueOf(keys[i]).String() < reflect.ValueOf(keys[j]).String() })
			case reflect.Int, reflect.Int8, reflect.Int16, reflect.Int32, reflect.Int64:
				sort.Slice(keys, func(i, j int) bool { return reflect.ValueOf(keys[i]).Int() < reflect.ValueOf(keys[j]).Int() })
			case reflect.Uint, reflect.Uint8, reflect.Uint16, reflect.Uint32, reflect.Uint64, reflect.Uintptr:
				sort.Slice(keys, func(i, j int) bool { return reflect.ValueOf(keys[i]).Uint() < reflect.ValueOf(keys[j]).Uint() })
			case reflect.Float32, reflect.Float64:
				sort.Slice(keys, func(i, j int) bool { return reflect.ValueOf(keys[i]).Float() < reflect.ValueOf(keys[j]).Float() })
			default:
				s.mapUncontrolled++
				for k, v := range m {
					if !yield(k, v) {
						return
					}
				}
				return
			}
		}
		s.mapRanges++
		if s.cfg.MapSalt != 0 {
			x := s.cfg.MapSalt ^ uint64(uint32(label))*0x9E3779B97F4A7C15
			for i := len(keys) - 1; i > 0; i-- {
				x = splitmix(x)
				j := int(x % uint64(i+1))
				keys[i], keys[j] = keys[j], keys[i]
			}
		}
		for _, k := range keys {
			v, ok := m[k]
			if !ok {
				continue
			}
			if !yield(k, v) {
				return
			}
		}
	}
}

type byName[K any] struct {
	keys  []K
	names []string
}

func (b *byName[K]) Len() int           { return len(b.keys) }
func (b *byName[K]) Less(i, j int) bool { return b.names[i] < b.names[j] }
func (b *byName[K]) Swap(i, j int) {
	b.keys[i], b.keys[j] = b.keys[j], b.keys[i]
	b.names[i], b.names[j] = b.names[j], b.names[i]
}

// OnceDo replaces o.Do(f): sync.Once holds an internal mutex while f runs, so
// a second caller must be parked by the scheduler rather than by that mutex.
func OnceDo(o *sync.Once, f func(), label int32) {
	if active.Load() == 0 {
		o.Do(f)
		return
	}
	s := S
	tick(s, label)
	en := func() bool {
		s.onceMu.Lock()
		_, busy := s.onceBusy[o]
		s.onceMu.Unlock()
		return !busy
	}
	if !en() {
		s.lockWaits++
		s.parkCur(label, en)
	} else if s.countdown <= 0 {
		s.preemptEnabled(label, en)
	}
	o.Do(func() {
		s.onceMu.Lock()
		s.onceBusy[o] = struct{}{}
		s.onceMu.Unlock()
		defer func() {
			s.onceMu.Lock()
			delete(s.onceBusy, o)
			s.onceMu.Unlock()
		}()
		f()
	})
}

// Fail is a failpoint: it reports whether the named fault should fire now.
func Fail(name string) bool {
	if active.Load() == 0 {
		return false
	}
	s := S
	if s.cfg.FailHook == nil {
		return false
	}
	s.failEvals++
	return s.cfg.FailHook(name)
}

// Probe counts that a branch of interest was reached.
func Probe(name string) {
	if active.Load() == 0 {
		return
	}
	s := S
	s.mu.Lock()
	s.probes[name]++
	s.mu.Unlock()
}

func splitmix(x uint64) uint64 {
	x += 0x9E3779B97F4A7C15
	z := x
	z = (z ^ (z >> 30)) * 0xBF58476D1CE4E5B9
	z = (z ^ (z >> 27)) * 0x94D049BB133111EB
	return z ^ (z >> 31)
}

#!/bin/sh
# usage: seed_eval.sh <seed-dir-under-/verif/seeded> <property> [more properties...]
#
# Sensitivity experiment: runs the quick check(s) against a scratch worktree of
# /repo that carries /verif/seeded/<dir>/patch.diff, from a snapshot of /verif's
# working tree. Neither /repo nor /verif (evidence, replays, build) is touched,
# so several of these can run next to each other and next to normal work.
# Prints one line per property: CAUGHT / MISSED / BROKEN(exit 2).
# Environment: SEED_BUDGET_MS (default 45000), SEED_TIER (default quick),
# SEED_KEEP=1 keeps the snapshot (with its replay files) for inspection.
set -u
name="$1"; shift
dir="/verif/seeded/$name"
[ -f "$dir/patch.diff" ] || { echo "no patch in $dir"; exit 2; }
tag="$name-$$"
snap="/tmp/vsnap-$tag"
wt="/tmp/seedwt-$tag"
cleanup() {
  git -C /repo worktree remove --force "$wt" >/dev/null 2>&1
  rm -rf "$wt"
  [ -n "${SEED_KEEP:-}" ] || rm -rf "$snap"
  rm -rf /tmp/elksim-*"$(printf '%s' "$snap|$wt" | sha256sum | cut -c1-8)"
}
trap cleanup EXIT
git -C /repo worktree add --detach "$wt" HEAD >/dev/null 2>&1 || { echo "cannot create worktree"; exit 2; }
git -C "$wt" apply "$dir/patch.diff" || { echo "patch does not apply to /repo HEAD"; exit 2; }
mkdir -p "$snap"
rsync -a --exclude .git --exclude /build --exclude /bin --exclude /replays --exclude /evidence /verif/ "$snap"/
export VCHECK_DIR="$snap" VCHECK_REPO="$wt"
sh "$snap/setup.sh" > "$snap/setup.log" 2>&1 || { echo "BROKEN setup: $(tail -5 "$snap/setup.log" | tr '\n' ' ' | cut -c1-400)"; exit 2; }
cd "$snap"
for prop in "$@"; do
  out="/tmp/seed_${name}_$prop.out"
  VERIF_BUDGET_MS="${SEED_BUDGET_MS:-45000}" ./bin/vcheck run "$prop" --tier "${SEED_TIER:-quick}" > "$out" 2>&1
  rc=$?
  case $rc in
    1) echo "$name $prop CAUGHT: $(grep -c '^VIOLATION' "$out") violation line(s); $(grep '^--- violation\|^--- worker' "$out" | head -1 | cut -c1-220)";;
    0) echo "$name $prop MISSED: $(grep '^vcheck: C' "$out" | cut -c1-200)";;
    *) echo "$name $prop BROKEN exit=$rc: $(tail -3 "$out" | tr '\n' ' ' | cut -c1-300)";;
  esac
done

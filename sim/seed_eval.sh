#!/bin/sh
# usage: seed_eval.sh <seed-dir-under-/verif/seeded> <property> [more properties...]
# Applies /verif/seeded/<dir>/patch.diff to /repo, runs the quick check(s), undoes the patch.
# Prints one line per property: CAUGHT / MISSED / BROKEN(exit 2).
set -u
dir="/verif/seeded/$1"; shift
[ -f "$dir/patch.diff" ] || { echo "no patch in $dir"; exit 2; }
cd /repo || exit 2
if ! git diff --quiet; then echo "/repo has uncommitted changes"; exit 2; fi
git apply --check "$dir/patch.diff" || { echo "patch does not apply to current /repo"; exit 2; }
git apply "$dir/patch.diff"
# the evidence written while the patch is applied describes a changed tree: keep the files of the unchanged tree
ev=$(mktemp -d /tmp/seed_ev.XXXXXX); cp /verif/evidence/*.json "$ev"/ 2>/dev/null
trap 'git -C /repo checkout -- . ; cp "$ev"/*.json /verif/evidence/ 2>/dev/null; rm -rf "$ev"; find /verif/replays -name "*.json" -newer "$dir/patch.diff" -mmin -30 -delete 2>/dev/null' EXIT
cd /verif
for prop in "$@"; do
  out="/tmp/seed_$(basename "$dir")_$prop.out"
  VERIF_BUDGET_MS="${SEED_BUDGET_MS:-45000}" ./bin/vcheck run "$prop" --tier quick > "$out" 2>&1
  rc=$?
  case $rc in
    1) echo "$prop CAUGHT: $(grep -c '^VIOLATION' "$out") violation line(s); $(grep '^--- violation' "$out" | head -1 | cut -c1-200)";;
    0) echo "$prop MISSED: $(grep '^vcheck: C' "$out" | cut -c1-200)";;
    *) echo "$prop BROKEN exit=$rc: $(tail -3 "$out" | tr '\n' ' ' | cut -c1-300)";;
  esac
done

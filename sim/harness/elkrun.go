package harness

import (
	"context"
	"fmt"
	"sort"
	"strings"
	"sync"
	"testing"

	"github.com/elk-language/elk"
	"github.com/elk-language/elk/bitfield"
	"github.com/elk-language/elk/simhook"
	"github.com/elk-language/elk/types/checker"
	"github.com/elk-language/elk/value"
	"github.com/elk-language/elk/vm"
)

var compileMu sync.Mutex

// compileElk type checks and compiles src outside any simulation, with the
// sequential checker configuration (the reference configuration of C11).
// Macro expansion runs the macro body on vm.DefaultThreadPool. Inside a simulation that is the
// pool of the bubble; a compilation outside of one must not touch the queue a finished bubble
// left behind (a channel of a dead bubble), so it gets a pool of its own for its duration.
func compilePool() (restore func()) {
	if simhook.Active() {
		return func() {}
	}
	saved, savedAborter := *vm.DefaultThreadPool, value.GLOBAL_ABORTER
	// the global aborter of a finished simulation wraps a context of its bubble as well
	ctx, cancel := context.WithCancel(context.Background())
	value.GLOBAL_ABORTER = value.NewAborter(ctx, cancel)
	*vm.DefaultThreadPool = *vm.NewThreadPool(1, 16)
	return func() {
		vm.DefaultThreadPool.Close()
		cancel()
		*vm.DefaultThreadPool = saved
		value.GLOBAL_ABORTER = savedAborter
	}
}

func compileElk(src string, abortChecks bool) (chunk *vm.BytecodeFunction, diags string, failed bool, panicked string) {
	compileMu.Lock()
	defer compileMu.Unlock()
	defer compilePool()()
	old := checker.MethodCheckConcurrencyLimit
	checker.MethodCheckConcurrencyLimit = 1
	defer func() { checker.MethodCheckConcurrencyLimit = old }()
	defer func() {
		if r := recover(); r != nil {
			panicked = fmt.Sprint(r)
			failed = true
		}
	}()
	var flags bitfield.BitField16
	if abortChecks {
		flags.SetFlag(checker.AdditionalAbortChecks)
	}
	c := checker.NewWithFlags(flags)
	fn, dl := c.CheckSourceBytecode("main", src)
	var ds []string
	for _, d := range dl {
		ds = append(ds, d.Error())
	}
	sort.Strings(ds)
	return fn, strings.Join(ds, "\n"), dl.IsFailure(), ""
}

// compileElkSession compiles the inputs one after the other with one incremental checker
// that has abort checks enabled, the way the REPL does: the first input goes through the
// fresh compiler, every later one through the compiler the checker keeps between inputs.
func compileElkSession(srcs []string) (chunks []*vm.BytecodeFunction, diags string, failed bool, panicked string) {
	compileMu.Lock()
	defer compileMu.Unlock()
	defer compilePool()()
	old := checker.MethodCheckConcurrencyLimit
	checker.MethodCheckConcurrencyLimit = 1
	defer func() { checker.MethodCheckConcurrencyLimit = old }()
	defer func() {
		if r := recover(); r != nil {
			panicked = fmt.Sprint(r)
			failed = true
		}
	}()
	c := checker.New()
	c.SetAdditionalAbortChecks(true)
	c.SetIncremental(true)
	for _, src := range srcs {
		fn, dl := c.CheckSourceBytecode("<repl>", src)
		if dl.IsFailure() || fn == nil {
			var ds []string
			for _, d := range dl {
				ds = append(ds, d.Error())
			}
			return nil, strings.Join(ds, "\n"), true, ""
		}
		c.ClearErrors()
		chunks = append(chunks, fn)
	}
	return chunks, "", false, ""
}

// ElkOutcome is what one simulated run of a compiled program produced.
type ElkOutcome struct {
	Out      string
	Err      string // inspect of the uncaught error of the main thread, if any
	Res      simhook.Result
	QueueLen int
	QueueCap int
}

type elkRunOpts struct {
	Pool, Queue int
	FaultHook   func(e *Env, f simhook.Fault)
	Before      func(e *Env, v *vm.Thread)
	KeepGoing   bool // do not end the run when the main thread ends
}

// runElk executes chunk on a fresh VM as task 1 of a simulation.
func runElk(t *testing.T, cfg simhook.Config, chunk *vm.BytecodeFunction, o elkRunOpts) ElkOutcome {
	var oc ElkOutcome
	var envp *Env
	cfg.EndOnMain = !o.KeepGoing
	if o.FaultHook != nil {
		cfg.FaultHook = func(f simhook.Fault) { o.FaultHook(envp, f) }
	}
	pool := o.Pool
	if pool <= 0 {
		pool = 1
	}
	queue := o.Queue
	if queue <= 0 {
		queue = 1
	}
	var outBuf *SyncBuf
	oc.Res = Simulate(t, cfg, SimOpts{Pool: pool, Queue: queue}, func(e *Env) {
		envp = e
		outBuf = e.Out
		v := vm.New(vm.WithStdout(e.Out), vm.WithStderr(e.Out))
		if o.Before != nil {
			o.Before(e, v)
		}
		_, rerr := v.InterpretTopLevel(chunk)
		if !rerr.IsUndefined() {
			oc.Err = rerr.Inspect()
		}
		// The pool is not closed: an Elk process simply exits with its main
		// thread; tasks still in flight are abandoned (EndOnMain).
	})
	if outBuf != nil {
		oc.Out = outBuf.String()
	}
	if q := vm.DefaultThreadPool.TaskQueue; q != nil {
		oc.QueueLen, oc.QueueCap = len(q), cap(q)
	}
	return oc
}

func resetElk() { elk.InitGlobalEnvironment() }

func sortedLines(s string) []string {
	s = strings.TrimRight(s, "\n")
	if s == "" {
		return nil
	}
	l := strings.Split(s, "\n")
	sort.Strings(l)
	return l
}

func diffMultiset(want, got []string) string {
	w := map[string]int{}
	for _, x := range want {
		w[x]++
	}
	for _, x := range got {
		w[x]--
	}
	var missing, extra []string
	for k, n := range w {
		for ; n > 0; n-- {
			missing = append(missing, k)
		}
		for ; n < 0; n++ {
			extra = append(extra, k)
		}
	}
	sort.Strings(missing)
	sort.Strings(extra)
	if len(missing) == 0 && len(extra) == 0 {
		return ""
	}
	return fmt.Sprintf("missing %q, unexpected %q", missing, extra)
}

var _ = value.Nil

//go:build replexport

package harness

import (
	"encoding/json"
	"fmt"
	"os"
	"os/signal"
	"regexp"
	"strings"
	"syscall"
	"testing"

	"github.com/elk-language/elk/repl"
	"github.com/elk-language/elk/simhook"
)

// E-REPL: sessions of the real REPL evaluator (property C27). Faults: inputs
// rejected by the type checker after partial work, and a failpoint that turns
// a valid input into a rejected one at a chosen phase boundary of
// Checker.CheckProgram. Oracles: (1) a session with the rejected inputs removed
// behaves identically for every other input; (2) the output of an accepted
// input equals the tail of a batch run of the accepted prefix plus that input.

type replParams struct {
	Inputs []string `json:"inputs"`
	// FailInput/FailEval: force a checker failure in input FailInput at the
	// FailEval-th phase boundary (0 = no failpoint)
	FailInput int   `json:"fail_input"`
	FailEval  int   `json:"fail_eval"`
	Batch     []int `json:"batch"` // indices of inputs to compare with a batch run
}

type replGen struct {
	r        *Rand
	methods  []string // defined (by accepted inputs)
	classes  []string
	consts   []string
	locals   []string
	ghosts   []string // uses that refer to things only rejected inputs tried to define
	n        int
	empties  []string // classes without instance variables
	throwers []string // methods that throw at run time
	usables  []string // "Module::method" pairs not imported yet
	methods0 []string // parameterless methods imported with using
	pool     []int    // input kinds of the session's themes
	closures []string // closures over top-level locals
	typedefs []string // accepted typedefs (all include Int)
	ghostTD  []string // typedefs only rejected inputs tried to define
	ghostK   []string // constants only rejected inputs tried to define
	defaults []string // classes used as default type arguments
	generics []string // "Generic:Default" pairs
	mixins   []string // accepted mixins (each has a method mx<name>: Int)
	mixed    []string // "Class:mixin method" pairs of classes that include a mixin
	parents  []string // classes with a method `who: Int` that have (or may get) subclasses
	subs     []string // "Parent:Child" pairs, the child overrides who
	ghostUse []string // methods a rejected input tried to import with using
	aliased  []string // "Parent:Child" pairs whose parent got `alias aka who` in a later input
}

func (g *replGen) fresh(prefix string) string {
	g.n++
	return fmt.Sprintf("%s%d", prefix, g.n)
}

func (g *replGen) intExpr() string {
	var opts []string
	opts = append(opts, fmt.Sprint(g.r.Range(0, 9)))
	for _, m := range g.methods {
		opts = append(opts, fmt.Sprintf("%s(%d)", m, g.r.Range(0, 5)))
	}
	for _, c := range g.classes {
		opts = append(opts, fmt.Sprintf("%s(%d).get", c, g.r.Range(0, 5)))
	}
	opts = append(opts, g.consts...)
	opts = append(opts, g.locals...)
	a := Pick(g.r, opts)
	if g.r.Chance(0.4) {
		return "(" + a + " + " + Pick(g.r, opts) + ")"
	}
	return a
}

// next returns one input and whether it is meant to be rejected
// themes: each session concentrates on a few kinds of inputs so that multi-step
// sequences (define, import, reject, use) are likely within ten inputs.
var replThemes = map[string][]int{
	"methods":  {0, 1, 2, 3, 4, 5, 17, 18, 19, 20, 25, 26, 29},
	"classes":  {6, 7, 8, 9, 17, 18, 19, 24, 27},
	"values":   {10, 11, 12, 13, 14, 15, 16, 17, 18, 19, 20, 21, 22, 28},
	"ivars":    {30, 30, 31, 32, 33, 34, 31, 33, 17},
	"circular": {0, 10, 35, 35, 17, 18},
	"throwers": {36, 36, 37, 38, 37, 12, 13, 17, 18},
	"using":    {39, 39, 40, 41, 42, 43, 40, 42, 24, 28, 25},
	"ghosts":   {23, 23, 24, 25, 26, 27, 28, 17},
	"closures": {12, 13, 44, 44, 45, 45, 46, 46, 15, 16, 19, 20, 28},
	"typedefs": {47, 47, 48, 48, 49, 49, 50, 50, 51, 10, 17, 18},
	"mixins":   {52, 53, 53, 54, 54, 55, 55, 24, 25, 26, 28, 17},
	"generics": {63, 63, 64, 64, 65, 65, 66, 66, 66, 24, 28, 17},
	"inherit":  {56, 56, 57, 57, 58, 58, 61, 62, 24, 25, 26, 27, 28, 17},
	"rejusing": {39, 39, 59, 59, 60, 60, 40, 42, 17},
}

func (g *replGen) next() string {
	pool := g.pool
	if len(pool) == 0 {
		for k := 0; k < 63; k++ {
			pool = append(pool, k)
		}
	}
	switch k := pool[g.r.Intn(len(pool))]; {
	case k == 61:
		// an alias of a method that an earlier input compiled
		if len(g.subs) > 0 {
			pr := Pick(g.r, g.subs)
			dup := false
			for _, a := range g.aliased {
				dup = dup || strings.HasPrefix(a, strings.SplitN(pr, ":", 2)[0]+":")
			}
			if !dup {
				g.aliased = append(g.aliased, pr)
				return fmt.Sprintf("class %s\n  alias aka who\nend", strings.SplitN(pr, ":", 2)[0])
			}
		}
		return fmt.Sprintf("println \"T:%d:lit\"", g.n)
	case k == 62:
		// the alias called through the parent type on an instance of the subclass (dynamic dispatch)
		if len(g.aliased) > 0 {
			pr := strings.SplitN(Pick(g.r, g.aliased), ":", 2)
			return fmt.Sprintf("def aka_of%d(x: %s): Int\n  x.aka\nend\nprintln \"T:%d:${aka_of%d(%s())} ${aka_of%d(%s())}\"", g.n, pr[0], g.n, g.n, pr[1], g.n, pr[0])
		}
		return fmt.Sprintf("println \"T:%d:lit\"", g.n)
	case k == 56:
		// a parent class and a function that calls a method through a parent-typed parameter
		pc := g.fresh("Kp")
		g.parents = append(g.parents, pc)
		return fmt.Sprintf("class %s\n  def who: Int\n    %d\n  end\nend\ndef who_of_%s(x: %s): Int\n  x.who\nend", pc, g.r.Range(1, 9), strings.ToLower(pc), pc)
	case k == 57:
		if len(g.parents) > 0 {
			pc := Pick(g.r, g.parents)
			cc := g.fresh("Kq")
			g.subs = append(g.subs, pc+":"+cc)
			return fmt.Sprintf("class %s < %s\n  def who: Int\n    %d\n  end\nend", cc, pc, g.r.Range(10, 99))
		}
		return fmt.Sprintf("println \"T:%d:lit\"", g.n)
	case k == 58:
		// dynamic dispatch through the parent type must reach the override of the subclass
		if len(g.subs) > 0 {
			pr := strings.SplitN(Pick(g.r, g.subs), ":", 2)
			if g.r.Bool() {
				// a caller compiled now (after whatever inputs were rejected in between)
				return fmt.Sprintf("def late_who%d(x: %s): Int\n  x.who\nend\nprintln \"T:%d:${late_who%d(%s())} ${late_who%d(%s())}\"", g.n, pr[0], g.n, g.n, pr[1], g.n, pr[0])
			}
			return fmt.Sprintf("println \"T:%d:${who_of_%s(%s())} ${who_of_%s(%s())}\"", g.n, strings.ToLower(pr[0]), pr[1], strings.ToLower(pr[0]), pr[0])
		}
		return fmt.Sprintf("println \"T:%d:lit\"", g.n)
	case k == 59:
		// invalid: a using in an input that fails afterwards
		if len(g.usables) > 0 {
			u := Pick(g.r, g.usables)
			g.ghostUse = append(g.ghostUse, u[strings.Index(u, "::")+2:])
			return fmt.Sprintf("using %s\nundefined_function_%d(1)", u, g.n)
		}
		return fmt.Sprintf("println \"T:%d:lit\"", g.n)
	case k == 60:
		// a call of a method only a rejected input imported
		if len(g.ghostUse) > 0 {
			return fmt.Sprintf("println \"T:ghostuse:${%s()}\"", Pick(g.r, g.ghostUse))
		}
		return fmt.Sprintf("println \"T:%d:lit\"", g.n)
	case k == 63:
		// a plain class that generic classes use as a default type argument
		c := g.fresh("Kd")
		g.defaults = append(g.defaults, c)
		return fmt.Sprintf("class %s\n  def base: Int\n    %d\n  end\nend", c, g.r.Range(1, 9))
	case k == 64:
		// a generic class whose second type parameter defaults to such a class
		if len(g.defaults) > 0 {
			d := Pick(g.r, g.defaults)
			c := g.fresh("Gb")
			g.generics = append(g.generics, c+":"+d)
			return fmt.Sprintf("class %s[V, Y = %s]\n  def pick(y: Y): Y\n    y\n  end\nend", c, d)
		}
		return fmt.Sprintf("println \"T:%d:lit\"", g.n)
	case k == 65:
		// invalid: reopens the default class with a new method, then fails
		if len(g.defaults) > 0 {
			d := Pick(g.r, g.defaults)
			return fmt.Sprintf("class %s\n  def ghost_extra: Int\n    %d\n  end\nend\nundefined_function_%d(1)", d, g.r.Range(1, 9), g.n)
		}
		return fmt.Sprintf("var bad%d: String = 5", g.n)
	case k == 66:
		// the default class through the omitted type argument: its own method, or the one only a
		// rejected input gave it
		if len(g.generics) > 0 {
			pr := strings.SplitN(Pick(g.r, g.generics), ":", 2)
			m := Pick(g.r, []string{"base", "base", "ghost_extra"})
			return fmt.Sprintf("println \"T:%d:${%s::[Int]().pick(%s()).%s}\"", g.n, pr[0], pr[1], m)
		}
		return fmt.Sprintf("println \"T:%d:lit\"", g.n)
	case k == 52:
		mx := g.fresh("Mx")
		g.mixins = append(g.mixins, mx)
		return fmt.Sprintf("mixin %s\n  def via_%s: Int\n    %d\n  end\nend", mx, strings.ToLower(mx), g.r.Range(10, 90))
	case k == 53:
		// a class that includes a mixin
		if len(g.mixins) > 0 {
			mx := Pick(g.r, g.mixins)
			c := g.fresh("Km")
			g.mixed = append(g.mixed, c+":via_"+strings.ToLower(mx))
			return fmt.Sprintf("class %s\n  include %s\n  def own: Int\n    %d\n  end\nend", c, mx, g.r.Range(1, 9))
		}
		return fmt.Sprintf("println \"T:%d:lit\"", g.n)
	case k == 54:
		// the class is reopened (after whatever happened in between) and gets another method
		if len(g.mixed) > 0 {
			c := strings.SplitN(Pick(g.r, g.mixed), ":", 2)[0]
			return fmt.Sprintf("class %s\n  def extra%d: Int\n    %d\n  end\nend", c, g.n, g.r.Range(1, 9))
		}
		return fmt.Sprintf("println \"T:%d:lit\"", g.n)
	case k == 55:
		// the mixin's method through an instance of the including class
		if len(g.mixed) > 0 {
			pr := strings.SplitN(Pick(g.r, g.mixed), ":", 2)
			return fmt.Sprintf("println \"T:%d:${%s().%s + %s().own}\"", g.n, pr[0], pr[1], pr[0])
		}
		return fmt.Sprintf("println \"T:%d:lit\"", g.n)
	case k == 47:
		// a top-level typedef (keeps the checker's scope copies alive across inputs)
		td := g.fresh("Td")
		g.typedefs = append(g.typedefs, td)
		return fmt.Sprintf("typedef %s = Int | %s", td, Pick(g.r, []string{"Float", "String", "nil"}))
	case k == 48:
		// invalid: defines a typedef and a constant, then fails
		td, kc := g.fresh("Tg"), g.fresh("KG")
		g.ghostTD = append(g.ghostTD, td)
		g.ghostK = append(g.ghostK, kc)
		g.ghosts = append(g.ghosts, kc)
		return Pick(g.r, []string{
			fmt.Sprintf("typedef %s = Int | Float\nvar bad%d: Int = \"hot\"", td, g.n),
			fmt.Sprintf("const %s = 5\n%s.no_such_method", kc, kc),
			fmt.Sprintf("typedef %s = Int | Float\nconst %s: Int = 7\nundefined_function_%d(1)", td, kc, g.n),
		})
	case k == 49:
		// a typedef whose body names a typedef: an accepted one, or one only a rejected input defined
		td := g.fresh("Tr")
		if len(g.ghostTD) > 0 && g.r.Chance(0.6) {
			return fmt.Sprintf("typedef %s = %s | Int", td, Pick(g.r, g.ghostTD))
		}
		if len(g.typedefs) > 0 {
			// (never its own name: a self-referential typedef is accepted and sends isSubtype into
			// an endless recursion - a sequential front-end defect noted in DESIGN.md 7.3)
			body := Pick(g.r, g.typedefs)
			g.typedefs = append(g.typedefs, td)
			return fmt.Sprintf("typedef %s = %s | Int", td, body)
		}
		return fmt.Sprintf("println \"T:%d:lit\"", g.n)
	case k == 50:
		// a typed constant whose initialiser names a constant only a rejected input defined,
		// or the same name declared afresh (valid if nothing leaked)
		if len(g.ghostK) > 0 {
			kc := Pick(g.r, g.ghostK)
			if g.r.Bool() {
				return fmt.Sprintf("const %s: Int = %s * 2", g.fresh("KD"), kc)
			}
			return fmt.Sprintf("const %s: Int = %d", kc, g.r.Range(10, 99))
		}
		return fmt.Sprintf("println \"T:%d:lit\"", g.n)
	case k == 51:
		if len(g.typedefs) > 0 {
			l := g.fresh("tv")
			return fmt.Sprintf("var %s: %s = %d\nprintln \"T:%d:${%s}\"", l, Pick(g.r, g.typedefs), g.r.Range(1, 9), g.n, l)
		}
		return fmt.Sprintf("println \"T:%d:lit\"", g.n)
	case k == 44:
		// a closure that reads a top-level local of an earlier input
		if len(g.locals) > 0 {
			c := g.fresh("cl")
			g.closures = append(g.closures, c)
			return fmt.Sprintf("%s := || -> %s + %d", c, Pick(g.r, g.locals), g.r.Range(100, 900))
		}
		return fmt.Sprintf("println \"T:%d:lit\"", g.n)
	case k == 45:
		if len(g.closures) > 0 {
			return fmt.Sprintf("println \"T:%d:${%s.()}\"", g.n, Pick(g.r, g.closures))
		}
		return fmt.Sprintf("println \"T:%d:lit\"", g.n)
	case k == 46:
		// a closure that writes a top-level local
		if len(g.locals) > 0 {
			c := g.fresh("cw")
			l := Pick(g.r, g.locals)
			g.closures = append(g.closures, c)
			return fmt.Sprintf("%s := || -> do\n  %s = %s + %d\n  %s\nend", c, l, l, g.r.Range(1, 9), l)
		}
		return fmt.Sprintf("println \"T:%d:lit\"", g.n)
	case k == 30:
		// a class without instance variables
		c := g.fresh("Ke")
		g.empties = append(g.empties, c)
		return fmt.Sprintf("class %s\n  def tag: Int\n    %d\n  end\nend", c, g.r.Range(1, 9))
	case k == 31 || k == 32:
		if len(g.empties) > 0 {
			c := Pick(g.r, g.empties)
			decl := Pick(g.r, []string{"var @x: Int", "getter x: Int", "var @x: Int?"})
			// invalid: declares the first instance variable of an existing class, fails elsewhere
			return fmt.Sprintf("class %s\n  %s\nend\nundefined_function_%d(1)", c, decl, g.n)
		}
		return fmt.Sprintf("println \"T:%d:lit\"", g.n)
	case k == 33:
		if len(g.empties) > 0 {
			// valid only if no rejected input leaked a declaration of @x
			c := Pick(g.r, g.empties)
			return fmt.Sprintf("class %s\n  var @x: String?\n  def xs: String\n    @x.inspect\n  end\nend", c)
		}
		return fmt.Sprintf("println \"T:%d:lit\"", g.n)
	case k == 34:
		if len(g.empties) > 0 {
			// invalid unless a declaration of @x leaked
			c := Pick(g.r, g.empties)
			return fmt.Sprintf("class %s\n  def peek%d: Int\n    @x + 1\n  end\nend", c, g.n)
		}
		return fmt.Sprintf("println \"T:%d:lit\"", g.n)
	case k == 35:
		// invalid: circular reference between a constant and a method
		c, m := g.fresh("KZ"), g.fresh("cz")
		g.ghosts = append(g.ghosts, c, m+"()")
		return fmt.Sprintf("const %s: Int = %s()\ndef %s: Int\n  %s * 5\nend", c, m, m, c)
	case k == 36:
		m := g.fresh("thr")
		g.throwers = append(g.throwers, m)
		return fmt.Sprintf("def %s(x: Int): Int\n  throw unchecked x\nend", m)
	case k == 37 || k == 38:
		if len(g.throwers) > 0 {
			// runtime error in the middle of an expression: temporaries are on the stack
			m := Pick(g.r, g.throwers)
			return Pick(g.r, []string{
				fmt.Sprintf("println \"T:%d:${1 + %s(%d)}\"", g.n, m, g.r.Range(1, 9)),
				fmt.Sprintf("zz%d := [1, 2, %s(3)]", g.n, m),
				fmt.Sprintf("println(%s, %s(4))", g.intExpr(), m),
			})
		}
		return fmt.Sprintf("println \"T:%d:lit\"", g.n)
	case k == 39:
		mo := g.fresh("Mo")
		a, b := g.fresh("ua"), g.fresh("ub")
		g.usables = append(g.usables, mo+"::"+a, mo+"::"+b)
		return fmt.Sprintf("module %s\n  def %s: Int\n    %d\n  end\n  def %s: Int\n    %d\n  end\nend", mo, a, g.r.Range(1, 50), b, g.r.Range(51, 99))
	case k == 40 || k == 41:
		if len(g.usables) > 0 {
			i := g.r.Intn(len(g.usables))
			u := g.usables[i]
			g.usables = append(g.usables[:i:i], g.usables[i+1:]...)
			name := u[strings.Index(u, "::")+2:]
			g.methods0 = append(g.methods0, name)
			return "using " + u
		}
		return fmt.Sprintf("println \"T:%d:lit\"", g.n)
	case k == 42 || k == 43:
		if len(g.methods0) > 0 {
			return fmt.Sprintf("println \"T:%d:${%s()}\"", g.n, Pick(g.r, g.methods0))
		}
		return fmt.Sprintf("println \"T:%d:lit\"", g.n)
	case k < 4:
		m := g.fresh("m")
		body := g.intExpr() // before m is known: no self recursion
		g.methods = append(g.methods, m)
		return fmt.Sprintf("def %s(x: Int): Int\n  y := x + %s\n  y * 2\nend", m, body)
	case k < 6 && len(g.methods) > 0:
		// redefinition
		m := Pick(g.r, g.methods)
		return fmt.Sprintf("# redefinition\ndef %s(x: Int): Int\n  x - %d\nend", m, g.r.Range(1, 50))
	case k < 9:
		c := g.fresh("Kc")
		body := g.intExpr()
		g.classes = append(g.classes, c)
		return fmt.Sprintf("class %s\n  attr v: Int\n  init(@v); end\n  def get: Int\n    @v + %s\n  end\nend", c, body)
	case k < 10 && len(g.classes) > 0:
		// reopen: replace get
		c := Pick(g.r, g.classes)
		return fmt.Sprintf("# redefinition\nclass %s\n  def get: Int\n    @v * %d\n  end\nend", c, g.r.Range(2, 5))
	case k < 12:
		c := g.fresh("KK")
		body := g.intExpr()
		g.consts = append(g.consts, c)
		return fmt.Sprintf("const %s: Int = %s", c, body)
	case k < 15:
		l := g.fresh("a")
		e := g.intExpr()
		g.locals = append(g.locals, l)
		return fmt.Sprintf("%s := %s", l, e)
	case k < 17 && len(g.locals) > 0:
		l := Pick(g.r, g.locals)
		return fmt.Sprintf("%s = %s + %s", l, l, g.intExpr())
	case k < 22:
		return fmt.Sprintf("println \"T:%d:${%s}\"", g.n, g.intExpr())
	case k < 23:
		// runtime error without earlier side effects
		return fmt.Sprintf("throw unchecked %d", g.r.Range(1, 9))
	case k < 24 && len(g.ghosts) > 0:
		// use of something only a rejected input tried to define
		return fmt.Sprintf("println \"T:ghost:${%s}\"", Pick(g.r, g.ghosts))
	case k < 25:
		// invalid: unknown superclass (fails while hoisting namespaces)
		c := g.fresh("Kb")
		g.ghosts = append(g.ghosts, c+"(1).inspect")
		return fmt.Sprintf("class %s < NoSuchClass%d\n  def get: Int; 1; end\nend", c, g.n)
	case k < 26:
		// invalid: type error in the second of two method bodies (the first is fine)
		m1, m2 := g.fresh("g"), g.fresh("g")
		g.ghosts = append(g.ghosts, m1+"(1)")
		return fmt.Sprintf("def %s(x: Int): Int\n  x + 1\nend\ndef %s(x: Int): String\n  x\nend", m1, m2)
	case k < 27:
		// invalid: bad signature
		m := g.fresh("b")
		g.ghosts = append(g.ghosts, m+"(1)")
		return fmt.Sprintf("def %s(x: NoSuchType%d): Int\n  1\nend", m, g.n)
	case k < 28:
		// invalid: bad constant initialiser after a valid class
		c, k2 := g.fresh("Kd"), g.fresh("KQ")
		g.ghosts = append(g.ghosts, c+"(2).get", k2)
		return fmt.Sprintf("class %s\n  attr v: Int\n  init(@v); end\n  def get: Int; @v; end\nend\nconst %s: String = 5", c, k2)
	case k < 29:
		// invalid: error in the last top-level statement after new locals
		l := g.fresh("nl")
		g.ghosts = append(g.ghosts, l)
		return fmt.Sprintf("%s := %s\n%s.no_such_method", l, g.intExpr(), l)
	default:
		// invalid: redefinition of an existing method with a body error
		if len(g.methods) > 0 {
			m := Pick(g.r, g.methods)
			return fmt.Sprintf("def %s(x: Int): Int\n  x.no_such_method\nend", m)
		}
		return fmt.Sprintf("println \"T:%d:lit\"", g.n)
	}
}

type c27Engine struct{}

func init() {
	register(&c27Engine{})
	// start os/signal's watcher goroutine outside of any synctest bubble: the
	// REPL evaluator calls signal.NotifyContext for every input
	signal.Notify(make(chan os.Signal, 1), syscall.SIGUSR2)
}

func (*c27Engine) Name() string     { return "C27" }
func (*c27Engine) Property() string { return "C27" }

func (*c27Engine) Generate(seed uint64, tier string) *Case {
	r := NewRand(seed)
	g := &replGen{r: r}
	if r.Chance(0.8) {
		names := []string{"methods", "classes", "values", "ivars", "circular", "throwers", "using", "ghosts", "closures", "typedefs", "typedefs", "mixins", "mixins", "inherit", "inherit", "rejusing", "generics", "generics"}
		for i := 0; i < r.Range(1, 3); i++ {
			g.pool = append(g.pool, replThemes[Pick(r, names)]...)
		}
	}
	n := r.Range(4, 10)
	if tier == "thorough" {
		n = r.Range(4, 14)
	}
	var p replParams
	scripted := false
	if r.Chance(0.35) {
		// scripted skeleton: a multi-step sequence of the kind that exposed a defect
		// before, with its invalid step drawn at random and random inputs in between
		invalid := func() string {
			return Pick(r, []string{
				"var bad_x: String = 5",
				fmt.Sprintf("class Kx%d < NoSuchClass\nend", r.Intn(99)),
				fmt.Sprintf("def bx%d(x: Int): String\n  x\nend", r.Intn(99)),
				fmt.Sprintf("nl%d := 5\nnl%d.no_such_method", r.Intn(99), r.Intn(99)),
				fmt.Sprintf("const KQ%d: String = 5", r.Intn(99)),
				"undefined_function_call(1)",
			})
		}
		var script []string
		switch r.Intn(16) {
		case 15:
			// a generic class whose type parameter defaults to a user class; a rejected input reopens
			// that class: what it added must not be reachable through the omitted type argument
			script = []string{"class Sfo\n  def one: Int\n    1\n  end\nend", "class Sbx[V, Y = Sfo]\n  def pick(y: Y): Y\n    y\n  end\nend", "class Sfo\n  def two: Int\n    2\n  end\nend\n" + invalid(), "sbx := Sbx::[Int]()", "println \"T:s22:${sbx.pick(Sfo()).two}\"", "println \"T:s23:${sbx.pick(Sfo()).one}\""}
		case 14:
			// a caller through a parent-typed parameter is compiled before the subclass exists
			script = []string{"class Spc\n  def who: Int\n    1\n  end\nend\ndef swho2(x: Spc): Int\n  x.who\nend", "class Spd < Spc\n  def who: Int\n    2\n  end\nend", "println \"T:s21:${swho2(Spd())} ${swho2(Spc())}\""}
		case 13:
			// the builtin library (the enhance! macro of Std::Kernel) is imported by the first input;
			// when that input is rejected the import has to happen again
			script = []string{invalid(), "mixin Sen\n  mixin Singleton\n    def ssing: Int\n      5\n    end\n  end\n  def sinst: Int\n    3\n  end\nend", "class Sec\n  enhance! Sen\nend", "println \"T:s20:${Sec.ssing + Sec().sinst}\""}
		case 12:
			// an alias of a method compiled by an earlier input, called dynamically
			script = []string{"class Sqa\n  def who: Int\n    1\n  end\nend", "class Sqb < Sqa\n  def own: Int\n    2\n  end\nend", "class Sqa\n  alias aka who\nend", "def saka(x: Sqa): Int\n  x.aka\nend\nprintln \"T:s19:${saka(Sqb())} ${saka(Sqa())}\""}
		case 11:
			// a caller through a parent-typed parameter is compiled after a rejected input: the
			// subclass (known before the rejected input) must still be dispatched to
			script = []string{"class Spa\n  def who: Int\n    1\n  end\nend", "class Spb < Spa\n  def who: Int\n    2\n  end\nend", invalid(), "def swho(x: Spa): Int\n  x.who\nend", "println \"T:s18:${swho(Spb())} ${swho(Spa())}\""}
		case 10:
			// a class with a mixin is reopened after a rejected input
			script = []string{"mixin Smx\n  def sgreet: Int\n    7\n  end\nend", "class Spm\n  include Smx\n  def sown: Int\n    1\n  end\nend", "println \"T:s16:${Spm().sgreet}\"", invalid(), "class Spm\n  def sextra: Int\n    2\n  end\nend", "println \"T:s17:${Spm().sgreet + Spm().sextra}\""}
		case 0:
			script = []string{"module Foo\n  def ua: Int\n    1\n  end\n  def ub: Int\n    2\n  end\nend", "using Foo::ua", "println \"T:s1:${ua()}\"", invalid(), "using Foo::ub", "println \"T:s2:${ub()}\""}
		case 1:
			decl := Pick(r, []string{"var @x: Int", "getter x: Int", "var @x: Int?"})
			script = []string{"class Kes\n  def tag: Int\n    1\n  end\nend", "class Kes\n  " + decl + "\nend\n" + invalid(), Pick(r, []string{"class Kes\n  var @x: String?\n  def xs: String\n    @x.inspect\n  end\nend", "class Kes\n  def peek: Int\n    @x + 1\n  end\nend"}), "println \"T:s3:${Kes().tag}\""}
		case 2:
			script = []string{"sa := 5", invalid(), "println \"T:s4:${sa}\"", "sa = sa + 1", invalid(), "println \"T:s5:${sa}\""}
		case 3:
			script = []string{"def sm(x: Int): Int\n  y := x + 2\n  y * 2\nend", "const SK: Int = sm(5)", "sb := 1 + SK", "println \"T:s6:${sb}\""}
		case 4:
			script = []string{"println \"T:s7:0\"", "const SFOO: Int = sbar()\ndef sbar: Int\n  SFOO * 5\nend", "println \"T:s8:1\"", "println \"T:s9:2\""}
		case 5:
			script = []string{"def sthr: Int\n  throw unchecked 7\nend", "var sz = 9", "println(1 + sthr())", "var sa2 = 5", "var sb2 = 6", "println \"T:s10:${sa2} ${sb2} ${sz}\""}
		case 6:
			// a method redefined and called in the same input
			script = []string{"def sh: Int\n  1\nend", "# redefinition\ndef sh: Int\n  2\nend\nprintln \"T:s11:${sh()}\"", "println \"T:s11b:${sh()}\""}
		case 7:
			// a caller compiled before its callee is redefined
			script = []string{"def sh2: Int\n  1\nend", "def scaller: Int\n  sh2() + 10\nend", "# redefinition\ndef sh2: Int\n  2\nend", "println \"T:s12:${scaller()}\""}
		case 8:
			// a rejected constant initialised from an existing method, then the method is redefined to read a constant of that name
			script = []string{"def shelper: Int\n  1\nend", "const SX: Int = shelper()\n" + invalid(), "const SX: Int = 5", "# redefinition\ndef shelper: Int\n  SX\nend", "println \"T:s13:${shelper()}\""}
		default:
			// closures over top-level locals across inputs
			script = []string{"var sc = 1", "sf := || -> sc + 100", "sc = 10", "println \"T:s14:${sf.()}\"", "sg := || -> do\n  sc = sc + 1\n  sc\nend", "sg.()", "println \"T:s15:${sc} ${sf.()}\""}
		}
		scripted = true
		for _, step := range script {
			if r.Chance(0.3) {
				p.Inputs = append(p.Inputs, g.next())
			}
			p.Inputs = append(p.Inputs, step)
		}
	} else {
		for i := 0; i < n; i++ {
			p.Inputs = append(p.Inputs, g.next())
		}
	}
	// always end with uses of everything that exists
	p.Inputs = append(p.Inputs, fmt.Sprintf("println \"T:end:${%s}\"", g.intExpr()))
	if r.Chance(0.4) {
		p.FailInput = r.Intn(len(p.Inputs)-1) + 1 // 1-based
		p.FailEval = r.Range(1, 24)
	}
	if scripted {
		// every step of a scripted sequence is compared with its batch run
		for i := range p.Inputs {
			p.Batch = append(p.Batch, i)
		}
	} else {
		for i := 0; i < 2; i++ {
			p.Batch = append(p.Batch, r.Intn(len(p.Inputs)))
		}
	}
	b, _ := json.Marshal(&p)
	sc := drawSched(r, 1_000_000)
	if sc.Strategy == "random" {
		sc.MeanGap = Pick(r, []int{200, 2000, 20000})
	} else if sc.Strategy == "rr" || sc.Strategy == "starve" {
		sc.MeanGap = Pick(r, []int{500, 5000})
	}
	sc.MaxTicks = 300_000_000
	return &Case{Params: b, Sched: sc}
}

var ansiRe = regexp.MustCompile(`\x1b\[[0-9;]*m`)
var replNameRe = regexp.MustCompile(`<repl:\d+>`)

type replSeg struct {
	Raw    string
	Status string // ok | rejected | error
	Tokens []string
}

func classifySeg(raw string) replSeg {
	s := ansiRe.ReplaceAllString(raw, "")
	s = replNameRe.ReplaceAllString(s, "<repl>")
	s = hexAddr.ReplaceAllString(s, "0x?")
	seg := replSeg{Raw: s, Status: "rejected"}
	for _, l := range strings.Split(s, "\n") {
		if strings.HasPrefix(l, "T:") {
			seg.Tokens = append(seg.Tokens, l)
		}
		if strings.HasPrefix(l, "=> ") {
			seg.Status = "ok"
		}
	}
	if seg.Status != "ok" && (strings.Contains(s, "Uncaught") || strings.Contains(s, "Error!")) {
		seg.Status = "error"
	}
	return seg
}

// runSession runs the inputs through the real REPL evaluator inside one simulation.
func runSession(t *testing.T, cfg simhook.Config, inputs []string, failInput, failEval int) ([]replSeg, simhook.Result, string) {
	var segs []replSeg
	var bodyPanic string
	cur := 0
	evals := 0
	cfg.EndOnMain = true
	cfg.FailHook = func(name string) bool {
		if name != "checker.phase" || failInput == 0 || cur != failInput {
			return false
		}
		evals++
		return evals == failEval
	}
	resetElk()
	f, err := os.CreateTemp("", "elksim-repl-*.out")
	if err != nil {
		return nil, simhook.Result{Outcome: "harness_panic", PanicVal: err.Error()}, ""
	}
	defer os.Remove(f.Name())
	defer f.Close()
	oldOut, oldErr := os.Stdout, os.Stderr
	res := Simulate(t, cfg, SimOpts{Pool: 2, Queue: 64}, func(e *Env) {
		defer func() {
			if r := recover(); r != nil {
				bodyPanic = fmt.Sprintf("%v\n%s", r, trimStack(stackNow()))
			}
		}()
		os.Stdout, os.Stderr = f, f
		defer func() { os.Stdout, os.Stderr = oldOut, oldErr }()
		ev := repl.NewVerifEvaluator(e.Ctx)
		var off int64
		for i, in := range inputs {
			cur = i + 1
			evals = 0
			ev.Evaluate(in)
			st, _ := f.Stat()
			buf := make([]byte, st.Size()-off)
			f.ReadAt(buf, off)
			off = st.Size()
			segs = append(segs, classifySeg(string(buf)))
		}
	})
	os.Stdout, os.Stderr = oldOut, oldErr
	return segs, res, bodyPanic
}

func (*c27Engine) Execute(t *testing.T, c *Case) *Verdict {
	var p replParams
	if err := json.Unmarshal(c.Params, &p); err != nil {
		return &Verdict{Verdict: "harness_error", Detail: err.Error()}
	}
	v := &Verdict{Verdict: "ok", Property: "C27", Exec: 1}
	session := func() string {
		var b strings.Builder
		for i, in := range p.Inputs {
			fmt.Fprintf(&b, "--- input %d:\n%s\n", i+1, in)
		}
		if p.FailInput > 0 {
			fmt.Fprintf(&b, "--- failpoint: input %d, phase boundary %d\n", p.FailInput, p.FailEval)
		}
		return b.String()
	}
	bad := func(class, format string, a ...any) *Verdict {
		v.Verdict, v.Class, v.Sig = "violation", class, class
		v.Detail = fmt.Sprintf(format, a...) + "\n" + session()
		return v
	}
	segs, res, bodyPanic := runSession(t, c.Sched, p.Inputs, p.FailInput, p.FailEval)
	v.Res = &res
	v.Hash = hashStrings(string(c.Params), hashDecisions(res.Decisions))
	switch res.Outcome {
	case "ok":
	case "gopanic":
		return bad("gopanic", "Go panic in a task during the session: %s\n%s", res.PanicVal, trimStack(res.PanicStack))
	case "harness_panic":
		v.Verdict, v.Class, v.Detail = "harness_error", "harness_panic", res.PanicVal
		return v
	default:
		return bad(res.Outcome, "session did not finish (%s); state: %s", res.Outcome, res.State)
	}
	if res.TokenViolations > 0 {
		v.Verdict, v.Class, v.Detail = "harness_error", "token", res.FirstViolation
		return v
	}
	if bodyPanic != "" {
		return bad("gopanic", "Go panic while evaluating input %d of the session: %s", len(segs)+1, bodyPanic)
	}
	nRej, nErr := 0, 0
	var kept []string
	var keptIdx []int
	for i, s := range segs {
		switch s.Status {
		case "rejected":
			nRej++
		case "error":
			nErr++
		}
		if s.Status != "rejected" {
			kept = append(kept, p.Inputs[i])
			keptIdx = append(keptIdx, i)
		}
	}
	failFired := p.FailInput > 0 && p.FailInput <= len(segs) && res.FailEvals > 0
	v.Nontrivial = nRej > 0 && len(kept) > 0
	v.Extra = map[string]int64{"inputs": int64(len(p.Inputs)), "rejected_inputs": int64(nRej), "runtime_error_inputs": int64(nErr), "failpoint_armed": b2i(p.FailInput > 0), "failpoint_evaluated": b2i(failFired)}
	v.Sample = map[string]any{"inputs": p.Inputs, "statuses": statuses(segs), "fail_input": p.FailInput, "fail_eval": p.FailEval}
	// oracle 1: the session without its rejected inputs. Each rejected input is removed
	// on its own (an input that is only rejected *because of* an earlier rejected input
	// must show up as a difference), and all of them together.
	var rejIdx []int
	for i, sg := range segs {
		if sg.Status == "rejected" {
			rejIdx = append(rejIdx, i)
		}
	}
	var variants [][]int // sets of input indices to drop
	for _, i := range rejIdx {
		if len(variants) < 3 {
			variants = append(variants, []int{i})
		}
	}
	if len(rejIdx) >= 2 {
		variants = append(variants, rejIdx)
	}
	for _, drop := range variants {
		if len(kept) == 0 {
			break
		}
		dropped := map[int]bool{}
		for _, i := range drop {
			dropped[i] = true
		}
		var inputs2 []string
		var idx2 []int
		for i := range p.Inputs {
			if i < len(segs) && !dropped[i] {
				inputs2 = append(inputs2, p.Inputs[i])
				idx2 = append(idx2, i)
			}
		}
		if len(inputs2) == 0 {
			continue
		}
		// the injected checker failure stays armed for the same input
		fail2, eval2 := 0, 0
		for k, i := range idx2 {
			if p.FailInput == i+1 {
				fail2, eval2 = k+1, p.FailEval
			}
		}
		segs2, res2, panic2 := runSession(t, c.Sched, inputs2, fail2, eval2)
		v.Exec++
		if res2.Outcome != "ok" || panic2 != "" {
			if res2.Outcome == "harness_panic" {
				v.Verdict, v.Class, v.Detail = "harness_error", "harness_panic", res2.PanicVal
				return v
			}
			return bad("gopanic", "the session with rejected input(s) %v removed failed: %s %s %s", plus1(drop), res2.Outcome, res2.PanicVal, panic2)
		}
		for k, i := range idx2 {
			if k >= len(segs2) {
				break
			}
			a, b := segs[i], segs2[k]
			if a.Status != b.Status || strings.Join(a.Tokens, "\n") != strings.Join(b.Tokens, "\n") || a.Raw != b.Raw {
				return bad("trace", "a rejected input left a trace: input %d behaves differently once rejected input(s) %v are removed from the session\nwith them (%s):\n%s\nwithout (%s):\n%s", i+1, plus1(drop), a.Status, a.Raw, b.Status, b.Raw)
			}
		}
	}
	// oracle 2: batch runs of accepted prefixes
	for _, bi := range p.Batch {
		if bi >= len(segs) || segs[bi].Status != "ok" {
			continue
		}
		var parts []string
		// A batch program hoists definitions, so every call sees the last definition of a
		// method. The session agrees with that from the last redefinition on, unless something
		// was *evaluated* before it (a local or a constant computed with the old body). The
		// comparison is therefore made when every accepted input in front of the last
		// redefinition is a pure definition, and skipped (counted) otherwise.
		lastRedef := -1
		for j := 0; j <= bi; j++ {
			if segs[j].Status == "ok" && strings.HasPrefix(p.Inputs[j], "# redefinition") {
				lastRedef = j
			}
		}
		redefined := false
		afterRedef := lastRedef >= 0
		for j := 0; j < bi; j++ {
			if segs[j].Status == "ok" {
				parts = append(parts, p.Inputs[j])
				if j < lastRedef && !pureDefinition(p.Inputs[j]) {
					redefined = true
				}
			}
		}
		if redefined {
			v.Extra["batch_skipped_redefinition"]++
			continue
		}
		parts = append(parts, "println \"T:@@marker\"", p.Inputs[bi])
		src := strings.Join(parts, "\n")
		resetElk()
		chunk, _, failed, panicked := compileElk(src, true)
		v.Exec++
		if panicked != "" || failed {
			v.Extra["batch_rejected"]++
			continue
		}
		oc := runElk(t, simhook.Config{Strategy: "nonpreemptive", Seed: 1, MaxTicks: 100_000_000}, chunk, elkRunOpts{Pool: 2, Queue: 64})
		if oc.Res.Outcome != "ok" || oc.Err != "" {
			v.Extra["batch_failed"]++
			continue
		}
		var tail []string
		seen := false
		for _, l := range strings.Split(oc.Out, "\n") {
			if l == "T:@@marker" {
				seen = true
				tail = nil
				continue
			}
			if seen && strings.HasPrefix(l, "T:") {
				tail = append(tail, l)
			}
		}
		v.Extra["batch_compared"]++
		if strings.Join(tail, "\n") != strings.Join(segs[bi].Tokens, "\n") {
			vv := bad("batch", "input %d printed %q in the session but %q at the end of a batch run of the accepted inputs before it plus itself\n--- batch program:\n%s", bi+1, segs[bi].Tokens, tail, src)
			if afterRedef {
				vv.Sig = "batch/after-redefinition"
			}
			return vv
		}
	}
	return v
}

// pureDefinition reports whether an input only defines things (nothing is
// evaluated when it runs).
func pureDefinition(in string) bool {
	in = strings.TrimPrefix(in, "# redefinition\n")
	depth := 0
	for _, l := range strings.Split(in, "\n") {
		t := strings.TrimSpace(l)
		if t == "" || strings.HasPrefix(t, "#") {
			continue
		}
		if l == t { // a top-level line
			switch {
			case strings.HasPrefix(t, "def "), strings.HasPrefix(t, "class "), strings.HasPrefix(t, "module "):
				depth++
			case t == "end":
				depth--
			case strings.HasPrefix(t, "using "):
			default:
				return false
			}
		}
	}
	return true
}

func plus1(xs []int) []int {
	out := make([]int, len(xs))
	for i, x := range xs {
		out[i] = x + 1
	}
	return out
}

func statuses(segs []replSeg) []string {
	var out []string
	for _, s := range segs {
		out = append(out, s.Status)
	}
	return out
}

func (*c27Engine) Shrink(c *Case) []*Case {
	var p replParams
	if json.Unmarshal(c.Params, &p) != nil {
		return nil
	}
	var out []*Case
	for i := range p.Inputs {
		if len(p.Inputs) <= 2 {
			break
		}
		q := p
		q.Inputs = append(append([]string{}, p.Inputs[:i]...), p.Inputs[i+1:]...)
		if p.FailInput == i+1 {
			q.FailInput, q.FailEval = 0, 0
		} else if p.FailInput > i+1 {
			q.FailInput--
		}
		q.Batch = nil
		for _, b := range p.Batch {
			if b < i {
				q.Batch = append(q.Batch, b)
			} else if b > i {
				q.Batch = append(q.Batch, b-1)
			}
		}
		bb, _ := json.Marshal(&q)
		cc := *c
		cc.Params = bb
		out = append(out, &cc)
	}
	return out
}

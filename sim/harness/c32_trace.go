package harness

import (
	"encoding/json"
	"fmt"
	"strings"
	"testing"

	"github.com/elk-language/elk/vm"
)

// E-TRACE: stack traces of errors rethrown across promises (property C32,
// slice). Whether an awaited promise is already rejected when the await
// executes, still pending (the awaiting task suspends and is resumed by the
// settling thread) or awaited synchronously from a plain function depends on
// the schedule, the pool size and the timers; the three paths build the trace
// in different places (AWAIT fast path, continuation resume, AWAIT_SYNC). The
// trace of the uncaught error must be the call chain the generator built, with
// the line of every call / await and of the throw, whatever path was taken.

type traceFrame struct {
	Func string `json:"func"` // "" for the top level
	Line int    `json:"line"`
}

type traceParams struct {
	Src    string       `json:"src"`
	Frames []traceFrame `json:"frames"` // outermost first
	Pool   int          `json:"pool"`
	Kinds  []string     `json:"kinds"`
}

type c32Engine struct{}

func init() { register(&c32Engine{}) }

func (*c32Engine) Name() string     { return "C32" }
func (*c32Engine) Property() string { return "C32" }

const tracePrelude = `def busy(n: Int): Int
  i := 0
  acc := 0
  while i < n
    acc = acc + i
    i = i + 1
  end
  acc
end

async def noise(n: Int): Int
  busy(n)
end

async def watch(p: Promise[Int]): Int
  do
    await p
  catch :boom
    0 - 1
  end
end

def watch_sync(p: Promise[Int]): Int
  do
    await p
  catch :boom
    0 - 2
  end
end

`

func genTraceProgram(r *Rand) traceParams {
	var lines []string
	emit := func(s string) int {
		lines = append(lines, s)
		return len(lines)
	}
	for _, l := range strings.Split(strings.TrimRight(tracePrelude, "\n"), "\n") {
		emit(l)
	}
	emit("")
	k := r.Range(2, 6)
	// decide which functions are async; once a task runs on a pool worker a plain
	// function must not await synchronously (it would block the worker: with a
	// pool of one that is a deadlock which has nothing to do with this property)
	async := make([]bool, k+1)
	onWorker := false
	for i := 1; i <= k; i++ {
		if onWorker && i > 1 && !async[i-1] {
			async[i] = false
		} else {
			async[i] = r.Chance(0.6)
		}
		if async[i] {
			onWorker = true
		}
	}
	// the chain must cross at least one promise
	if !async[1] && !async[2] {
		async[r.Range(1, 2)] = true
		for i := 2; i <= k; i++ {
			// re-establish the rule after the change
			anc := false
			for j := 1; j < i; j++ {
				anc = anc || async[j]
			}
			if anc && !async[i-1] {
				async[i] = false
			}
		}
	}
	frames := make([]traceFrame, k+1)
	var kinds []string
	// one async link of the chain may be reached through a recursive async helper that
	// awaits itself on one line: consecutive frames of the trace are then equal (same
	// function, same line) and each of them still has to be listed
	recIdx, recDepth := 0, 0
	var recFrames []traceFrame
	if r.Chance(0.35) {
		var cand []int
		for i := 2; i <= k; i++ {
			if async[i] {
				cand = append(cand, i)
			}
		}
		if len(cand) > 0 {
			recIdx, recDepth = Pick(r, cand), r.Range(1, 3)
		}
	}
	nw := 0
	// callForm emits the statements that call fn(i+1) inside indent and returns the line of the frame
	callForm := func(ind string, next int, arg string) int {
		callee := fmt.Sprintf("fn%d(%s)", next, arg)
		calleeHead := fmt.Sprintf("fn%d(", next)
		if next == recIdx {
			arg = fmt.Sprintf("%s, %d", arg, recDepth)
			callee = fmt.Sprintf("fn%d_r(%s)", next, arg)
			calleeHead = fmt.Sprintf("fn%d_r(", next)
		}
		// the statement that carries the call / await may span several lines: the frame
		// reports the line on which the call site starts
		multi := r.Chance(0.4)
		stmt := func(prefix, suffix string) int {
			if !multi {
				return emit(ind + prefix + callee + suffix)
			}
			first := emit(ind + prefix + calleeHead)
			emit(ind + "  " + arg)
			emit(ind + ")" + suffix)
			return first
		}
		// other awaiters of the same promise: the rejection's trace is shared by all of them
		watchers := func(ind string) {
			if !r.Chance(0.45) {
				return
			}
			for w, n := 0, r.Range(1, 2); w < n; w++ {
				nw++
				emit(fmt.Sprintf("%sw%d := watch(p)", ind, nw))
			}
			kinds = append(kinds, "extra_awaiters")
		}
		tag := func(k string) {
			if multi {
				k += "_multiline"
			}
			kinds = append(kinds, k)
		}
		if !async[next] {
			tag("call")
			return stmt("r := ", "")
		}
		switch r.Intn(5) {
		case 0:
			tag("await")
			return stmt("r := await ", "")
		case 1:
			tag("await_in_expr")
			return stmt("r := 1 + (await ", ") - 1")
		case 2:
			kinds = append(kinds, "await_after_busy")
			emit(ind + "p := " + callee)
			watchers(ind)
			emit(fmt.Sprintf("%sbusy(%d)", ind, Pick(r, []int{1, 20, 200, 2000})))
			return emit(ind + "r := await p")
		case 3:
			kinds = append(kinds, "await_after_sleep")
			emit(ind + "p := " + callee)
			watchers(ind)
			emit(fmt.Sprintf("%ssleep %d.milliseconds", ind, Pick(r, []int{1, 5, 50})))
			return emit(ind + "r := await p")
		default:
			kinds = append(kinds, "await_after_noise")
			emit(ind + "p := " + callee)
			watchers(ind)
			emit(fmt.Sprintf("%sq := noise(%d)", ind, Pick(r, []int{5, 100, 1000})))
			emit(ind + "await q")
			return emit(ind + "r := await p")
		}
	}
	// functions are emitted innermost first so that every callee is defined above its caller
	type fnText struct {
		start int
	}
	_ = fnText{}
	// emit in order k..1: line numbers are final because emission is append-only
	for i := k; i >= 1; i-- {
		kw := "def"
		if async[i] {
			kw = "async def"
		}
		emit(fmt.Sprintf("%s fn%d(x: Int): Int", kw, i))
		if r.Chance(0.5) {
			emit("  a := x + 1")
		}
		if i == k {
			emit("  y := x * 2")
			if r.Chance(0.3) {
				emit(fmt.Sprintf("  busy(%d)", Pick(r, []int{1, 50, 500})))
			}
			frames[i] = traceFrame{Func: fmt.Sprintf("fn%d", i), Line: emit("  throw unchecked :boom if y > 0")}
			emit("  y")
		} else {
			frames[i] = traceFrame{Func: fmt.Sprintf("fn%d", i), Line: callForm("  ", i+1, "x + 1")}
			emit("  r + 1")
		}
		emit("end")
		emit("")
		if i == recIdx {
			name := fmt.Sprintf("fn%d_r", i)
			emit(fmt.Sprintf("async def %s(x: Int, d: Int): Int", name))
			emit("  r := 0")
			emit("  if d == 0")
			l0 := emit(fmt.Sprintf("    r = await fn%d(x)", i))
			emit("  else")
			l1 := emit(fmt.Sprintf("    r = await %s(x, d - 1)", name))
			emit("  end")
			emit("  r")
			emit("end")
			emit("")
			for j := 0; j < recDepth; j++ {
				recFrames = append(recFrames, traceFrame{Func: name, Line: l1})
			}
			recFrames = append(recFrames, traceFrame{Func: name, Line: l0})
			kinds = append(kinds, "recursive_async_same_line")
		}
	}
	// background noise that keeps the workers busy
	for j := 0; j < r.Intn(3); j++ {
		emit(fmt.Sprintf("bg%d := noise(%d)", j, Pick(r, []int{10, 300, 3000})))
	}
	emit("println \"start\"")
	frames[0] = traceFrame{Func: "", Line: callForm("", 1, "1")}
	emit("println \"unreachable ${r}\"")
	if recIdx > 0 {
		flat := append([]traceFrame{}, frames[:recIdx]...)
		flat = append(flat, recFrames...)
		frames = append(flat, frames[recIdx:]...)
	}
	return traceParams{Src: strings.Join(lines, "\n") + "\n", Frames: frames, Kinds: kinds}
}

func (*c32Engine) Generate(seed uint64, tier string) *Case {
	r := NewRand(seed)
	p := genTraceProgram(r)
	p.Pool = r.Range(1, 4)
	b, _ := json.Marshal(&p)
	sc := drawSched(r, 20_000)
	sc.MaxTicks = 20_000_000
	return &Case{Params: b, Sched: sc}
}

func (*c32Engine) Execute(t *testing.T, c *Case) *Verdict {
	var p traceParams
	if err := json.Unmarshal(c.Params, &p); err != nil {
		return &Verdict{Verdict: "harness_error", Detail: err.Error()}
	}
	resetElk()
	chunk, diags, failed, panicked := compileElk(p.Src, false)
	if panicked != "" {
		return &Verdict{Verdict: "harness_error", Class: "compile_panic", Detail: panicked + "\n" + p.Src}
	}
	if failed {
		return &Verdict{Verdict: "harness_error", Class: "workload_rejected", Detail: diags + "\n" + numbered(p.Src)}
	}
	var got []traceFrame
	var errInspect string
	cfg := c.Sched
	cfg.EndOnMain = true
	var out string
	res := Simulate(t, cfg, SimOpts{Pool: p.Pool, Queue: 64}, func(e *Env) {
		v := vm.New(vm.WithStdout(e.Out), vm.WithStderr(e.Out))
		_, rerr := v.InterpretTopLevel(chunk)
		if !rerr.IsUndefined() {
			errInspect = rerr.Inspect()
			if st := v.ErrStackTrace(); st != nil {
				for _, f := range *st {
					got = append(got, traceFrame{Func: f.FuncName, Line: f.LineNumber})
				}
			}
		}
		out = e.Out.String()
	})
	v := &Verdict{Verdict: "ok", Property: "C32", Exec: 1, Res: &res}
	v.Hash = hashStrings(p.Src, fmt.Sprint(p.Pool), hashDecisions(res.Decisions))
	v.Nontrivial = res.Tasks >= 2
	v.Extra = map[string]int64{fmt.Sprintf("pool_%d", p.Pool): 1, fmt.Sprintf("depth_%d", len(p.Frames)-1): 1}
	for _, k := range p.Kinds {
		v.Extra["form_"+k]++
	}
	render := func(fs []traceFrame) string {
		var b strings.Builder
		for i, f := range fs {
			name := f.Func
			if name == "" {
				name = "<top level>"
			}
			fmt.Fprintf(&b, " %d: line %d in %s\n", i, f.Line, name)
		}
		return b.String()
	}
	v.Sample = map[string]any{"pool": p.Pool, "forms": p.Kinds, "expected": render(p.Frames), "switches": res.Switches, "fake_ms": res.FakeNs / 1e6}
	bad := func(class, format string, a ...any) *Verdict {
		v.Verdict, v.Class, v.Sig = "violation", class, class
		v.Detail = fmt.Sprintf(format, a...) + fmt.Sprintf("\npool %d, call forms %v\n--- program:\n%s", p.Pool, p.Kinds, numbered(p.Src))
		return v
	}
	switch res.Outcome {
	case "ok":
	case "gopanic":
		return bad("gopanic", "Go panic while the error propagated: %s\n%s", res.PanicVal, trimStack(res.PanicStack))
	case "harness_panic":
		v.Verdict, v.Class, v.Detail = "harness_error", "harness_panic", res.PanicVal
		return v
	default:
		// termination is C16's subject, not this property's
		v.Verdict, v.Class = "inconclusive", "did_not_finish:"+res.Outcome
		v.Detail = res.State + "\n" + p.Src
		return v
	}
	if res.TokenViolations > 0 {
		v.Verdict, v.Class, v.Detail = "harness_error", "token", res.FirstViolation
		return v
	}
	if strings.Contains(out, "unreachable") || errInspect == "" {
		return bad("no_error", "the error thrown at the end of the chain did not reach the top level\noutput:\n%s", out)
	}
	if !strings.Contains(errInspect, "boom") {
		return bad("wrong_error", "the top level received %s instead of :boom", errInspect)
	}
	// compare: same number of frames, same lines; function names must end with the expected name
	okTrace := len(got) == len(p.Frames)
	if okTrace {
		for i := range got {
			if got[i].Line != p.Frames[i].Line {
				okTrace = false
			}
			if p.Frames[i].Func != "" && !strings.HasSuffix(got[i].Func, "::"+p.Frames[i].Func) && got[i].Func != p.Frames[i].Func {
				okTrace = false
			}
		}
	}
	if !okTrace {
		return bad("trace", "stack trace of the uncaught error differs from the active call chain\nexpected (outermost first):\n%sgot:\n%s", render(p.Frames), render(got))
	}
	return v
}

func (*c32Engine) Shrink(c *Case) []*Case {
	var p traceParams
	if json.Unmarshal(c.Params, &p) != nil {
		return nil
	}
	var out []*Case
	if p.Pool > 1 {
		q := p
		q.Pool--
		b, _ := json.Marshal(&q)
		cc := *c
		cc.Params = b
		out = append(out, &cc)
	}
	return out
}

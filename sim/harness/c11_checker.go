package harness

import (
	"encoding/json"
	"fmt"
	"regexp"
	"sort"
	"strings"
	"sync/atomic"
	"testing"

	"github.com/elk-language/elk/simhook"
	"github.com/elk-language/elk/types/checker"
	"github.com/elk-language/elk/vm"
)

// E-CHK: the type checker and bytecode compiler under arbitrary interleavings
// of the concurrently checked method bodies (property C11). Differential
// oracle: the same source checked at MethodCheckConcurrencyLimit = 1 without
// the scheduler is the reference.

type chkParams struct {
	Src   string `json:"src"`
	Limit int    `json:"limit"`
	// Methods: number of method bodies in the program
	Methods int `json:"methods"`
	Errors  int `json:"errors"`
}

type chkMethod struct {
	kind  string // top | module | instance
	owner string
	name  string
	level int
	// partner: name of a mutually recursive partner (same level), or ""
	partner string
}

func (m *chkMethod) call(arg string) string {
	switch m.kind {
	case "module":
		return fmt.Sprintf("%s.%s(%s)", m.owner, m.name, arg)
	case "instance":
		return fmt.Sprintf("%s(%s).%s(%s)", m.owner, arg, m.name, arg)
	case "singleton":
		return fmt.Sprintf("%s.%s(%s)", m.owner, m.name, arg)
	}
	return fmt.Sprintf("%s(%s)", m.name, arg)
}

type chkGen struct {
	r       *Rand
	methods []*chkMethod
	nv      int
	// the program declares the overloaded function ov: every call of it tries the overloads
	// one after the other, rolling the diagnostics of the failed attempts back
	overloads bool
}

func (g *chkGen) expr(m *chkMethod, vars []string, depth int) string {
	if depth <= 0 || g.r.Chance(0.35) {
		if g.r.Chance(0.7) {
			return Pick(g.r, vars)
		}
		return fmt.Sprint(g.r.Range(0, 9))
	}
	if g.overloads && g.r.Chance(0.3) {
		return "ov(" + g.expr(m, vars, depth-1) + ")"
	}
	switch k := g.r.Intn(10); {
	case k < 3:
		return "(" + g.expr(m, vars, depth-1) + " + " + g.expr(m, vars, depth-1) + ")"
	case k < 4:
		return "(" + g.expr(m, vars, depth-1) + " - " + g.expr(m, vars, depth-1) + ")"
	case k < 5:
		return "(" + g.expr(m, vars, depth-1) + " * 2)"
	default:
		// call a method of a strictly lower level (forward or backward in the source)
		var lower []*chkMethod
		for _, o := range g.methods {
			if o.level < m.level {
				lower = append(lower, o)
			}
		}
		if len(lower) == 0 {
			return Pick(g.r, vars)
		}
		return Pick(g.r, lower).call(g.expr(m, vars, depth-1))
	}
}

func (g *chkGen) body(m *chkMethod, errKind string) string {
	var b strings.Builder
	vars := []string{"x"}
	if m.kind == "instance" {
		vars = append(vars, "@v")
	}
	ind := "    "
	if m.kind == "top" {
		ind = "  "
	}
	if m.partner != "" {
		fmt.Fprintf(&b, "%sreturn x if x <= 0\n", ind)
	}
	n := g.r.Range(1, 5)
	for i := 0; i < n; i++ {
		switch k := g.r.Intn(10); {
		case k < 5:
			v := fmt.Sprintf("v%d", g.nv)
			g.nv++
			fmt.Fprintf(&b, "%s%s := %s\n", ind, v, g.expr(m, vars, 2))
			vars = append(vars, v)
		case k < 6 && len(vars) > 1:
			v := vars[len(vars)-1]
			if v != "@v" {
				fmt.Fprintf(&b, "%s%s = %s\n", ind, v, g.expr(m, vars, 2))
			}
		case k < 7:
			v := fmt.Sprintf("f%d", g.nv)
			g.nv++
			// closures reading an instance variable crash the VM sequentially (opGetIvar): locals only
			var locals []string
			for _, x := range vars {
				if x != "@v" {
					locals = append(locals, x)
				}
			}
			fmt.Fprintf(&b, "%s%s := |a: Int| -> a + %s\n", ind, v, Pick(g.r, locals))
			w := fmt.Sprintf("v%d", g.nv)
			g.nv++
			fmt.Fprintf(&b, "%s%s := %s.(%s)\n", ind, w, v, g.expr(m, vars, 1))
			vars = append(vars, w)
		case k < 9:
			v := fmt.Sprintf("v%d", g.nv)
			g.nv++
			fmt.Fprintf(&b, "%s%s := if %s > %d\n%s  %s\n%selse\n%s  %s\n%send\n", ind, v, Pick(g.r, vars), g.r.Range(0, 20), ind, g.expr(m, vars, 1), ind, ind, g.expr(m, vars, 1), ind)
			vars = append(vars, v)
		default:
			v := fmt.Sprintf("l%d", g.nv)
			g.nv++
			fmt.Fprintf(&b, "%s%s := [%s, %s]\n", ind, v, g.expr(m, vars, 1), g.expr(m, vars, 1))
			w := fmt.Sprintf("v%d", g.nv)
			g.nv++
			fmt.Fprintf(&b, "%s%s := %s.length\n", ind, w, v)
			vars = append(vars, w)
		}
	}
	switch errKind {
	case "assign":
		fmt.Fprintf(&b, "%svar bad%d: String = %s\n", ind, g.nv, Pick(g.r, vars))
		g.nv++
	case "nomethod":
		fmt.Fprintf(&b, "%s%s.no_such_method_%d\n", ind, Pick(g.r, vars), g.nv)
		g.nv++
	case "args":
		fmt.Fprintf(&b, "%sundefined_function_%d(%s, 1)\n", ind, g.nv, Pick(g.r, vars))
		g.nv++
	case "unused":
		// only a warning
		fmt.Fprintf(&b, "%s5\n", ind)
	}
	if m.partner != "" {
		var p *chkMethod
		for _, o := range g.methods {
			if o.name == m.partner && o.owner == m.owner && o.kind == m.kind {
				p = o
			}
		}
		callee := m
		if p != nil {
			callee = p
		}
		last := vars[len(vars)-1]
		if callee.kind == "instance" {
			fmt.Fprintf(&b, "%s%s(x - 1) + (%s - %s) + 1\n", ind, callee.name, last, last)
		} else {
			fmt.Fprintf(&b, "%s%s + (%s - %s) + 1\n", ind, callee.call("x - 1"), last, last)
		}
	} else {
		fmt.Fprintf(&b, "%s%s\n", ind, g.expr(m, vars, 2))
	}
	return b.String()
}

const chkOverloads = `overload def ov(a: String): Int then 1
overload def ov(a: Float): Int then 2
overload def ov(a: Int): Int
  a + 1
end
`

func genCheckerProgram(r *Rand, maxMethods int) (string, int, int) {
	g := &chkGen{r: r, overloads: r.Chance(0.4)}
	nMethods := r.Range(3, maxMethods)
	nClasses := r.Range(0, 3)
	nModules := r.Range(0, 2)
	for i := 0; i < nMethods; i++ {
		m := &chkMethod{name: fmt.Sprintf("fn%d", i), level: r.Range(0, 4), kind: "top"}
		if nClasses > 0 && r.Chance(0.35) {
			m.kind = "instance"
			m.owner = fmt.Sprintf("Kl%d", r.Intn(nClasses))
		} else if nModules > 0 && r.Chance(0.25) {
			m.kind = "module"
			m.owner = fmt.Sprintf("Md%d", r.Intn(nModules))
		}
		g.methods = append(g.methods, m)
	}
	// singleton methods that share their name with an instance method of the same class
	// (call sites of both are bound statically, possibly deferred: they must not be mixed up)
	for _, m := range append([]*chkMethod{}, g.methods...) {
		if m.kind == "instance" && r.Chance(0.3) {
			dup := false
			for _, o := range g.methods {
				dup = dup || (o.kind == "singleton" && o.owner == m.owner && o.name == m.name)
			}
			if !dup {
				g.methods = append(g.methods, &chkMethod{name: m.name, owner: m.owner, kind: "singleton", level: r.Range(0, 4)})
			}
		}
	}
	nMethods = len(g.methods)
	// recursion: self recursion and mutual pairs (same owner and kind)
	for i, m := range g.methods {
		if m.partner != "" {
			continue
		}
		if r.Chance(0.15) {
			m.partner = m.name
		} else if r.Chance(0.15) {
			for _, o := range g.methods[i+1:] {
				if o.partner == "" && o.kind == m.kind && o.owner == m.owner {
					m.partner, o.partner = o.name, m.name
					o.level = m.level
					break
				}
			}
		}
	}
	nErr := 0
	errAt := map[int]string{}
	if r.Chance(0.3) {
		nErr = r.Range(1, 3)
		for i := 0; i < nErr; i++ {
			errAt[r.Intn(nMethods)] = Pick(r, []string{"assign", "nomethod", "args"})
		}
	}
	if r.Chance(0.3) {
		errAt[r.Intn(nMethods)] = "unused"
	}
	var b strings.Builder
	if g.overloads && r.Bool() {
		b.WriteString(chkOverloads)
	}
	// shuffle definition order so that forward references are common
	order := make([]int, nMethods)
	for i := range order {
		order[i] = i
	}
	for i := nMethods - 1; i > 0; i-- {
		j := r.Intn(i + 1)
		order[i], order[j] = order[j], order[i]
	}
	emitted := map[int]bool{}
	emitOwner := func(kind, owner string) {
		if kind == "instance" {
			fmt.Fprintf(&b, "class %s\n  attr v: Int\n  init(@v); end\n", owner)
		} else {
			fmt.Fprintf(&b, "module %s\n", owner)
		}
		for _, i := range order {
			m := g.methods[i]
			if m.kind == kind && m.owner == owner && !emitted[i] {
				emitted[i] = true
				fmt.Fprintf(&b, "  def %s(x: Int): Int\n%s  end\n", m.name, g.body(m, errAt[i]))
			}
		}
		if kind == "instance" {
			open := false
			for _, i := range order {
				m := g.methods[i]
				if m.kind == "singleton" && m.owner == owner && !emitted[i] {
					emitted[i] = true
					if !open {
						b.WriteString("  singleton\n")
						open = true
					}
					fmt.Fprintf(&b, "  def %s(x: Int): Int\n%s  end\n", m.name, g.body(m, errAt[i]))
				}
			}
			if open {
				b.WriteString("  end\n")
			}
		}
		b.WriteString("end\n")
	}
	for _, i := range order {
		m := g.methods[i]
		if emitted[i] {
			continue
		}
		if m.kind == "top" {
			emitted[i] = true
			fmt.Fprintf(&b, "def %s(x: Int): Int\n%send\n", m.name, g.body(m, errAt[i]))
		} else if m.kind == "singleton" {
			emitOwner("instance", m.owner)
		} else {
			emitOwner(m.kind, m.owner)
		}
	}
	if g.overloads && !strings.HasPrefix(b.String(), chkOverloads) {
		b.WriteString(chkOverloads)
	}
	// constants initialised from method calls
	// (the checker recurses forever on constants initialised from recursive methods: only
	// methods that cannot reach a recursive one are used)
	recursiveBelow := map[int]bool{}
	for _, m := range g.methods {
		if m.partner != "" {
			for l := m.level; l <= 5; l++ {
				recursiveBelow[l+1] = true
			}
			recursiveBelow[m.level] = true
		}
	}
	var safe []*chkMethod
	for _, m := range g.methods {
		if m.partner == "" && !recursiveBelow[m.level] {
			safe = append(safe, m)
		}
	}
	nConst := r.Intn(3)
	if len(safe) == 0 {
		nConst = 0
	}
	for i := 0; i < nConst; i++ {
		m := Pick(r, safe)
		fmt.Fprintf(&b, "const KC%d: Int = %s\n", i, m.call(fmt.Sprint(r.Range(0, 4))))
	}
	// methods whose bodies are the first to mention a set of symbol literals: the symbols are
	// interned while the bodies are compiled concurrently, and the top level compares them.
	// __N__ is replaced by a number that is fresh for every check, so that no earlier run
	// of this process has interned the names.
	nSym, nSfn := 0, 0
	if r.Chance(0.6) {
		nSym, nSfn = r.Range(1, 5), r.Range(2, 6)
		if r.Chance(0.3) {
			nSym = r.Range(8, 40)
		}
		var sfnRet []int
		for i := 0; i < nSfn; i++ {
			var elems []string
			for k := r.Range(1, nSym+1); k > 0; k-- {
				elems = append(elems, fmt.Sprintf(":sy__N___%d", r.Intn(nSym)))
			}
			ret := r.Intn(nSym)
			sfnRet = append(sfnRet, ret)
			fmt.Fprintf(&b, "def sfn%d: Symbol\n  l%d := [%s]\n  l%d.length\n  :sy__N___%d\nend\n", i, i, strings.Join(elems, ", "), i, ret)
		}
		for i := 0; i < nSfn; i++ {
			for j := i + 1; j < nSfn; j++ {
				fmt.Fprintf(&b, "println \"s%d_%d=\" + (sfn%d() == sfn%d()).inspect\n", i, j, i, j)
			}
			fmt.Fprintf(&b, "println \"t%d=\" + (sfn%d() == :sy__N___%d).inspect\n", i, i, sfnRet[i])
		}
	}
	// constants initialised from different root methods whose call graphs share a helper
	// that reads one of those constants (a circular reference the checker must report
	// whatever the order in which the bodies finish), or an unrelated constant (no cycle)
	nCy := 0
	if r.Chance(0.3) {
		nCy = r.Range(2, 4)
		target := r.Intn(nCy + 1)
		readName := "CYZ"
		if target < nCy {
			readName = fmt.Sprintf("CY%d", target)
		}
		var defs []string
		defs = append(defs, fmt.Sprintf("def cyh(x: Int): Int\n  x + %s\nend\n", readName))
		via := "cyh"
		if r.Chance(0.4) {
			defs = append(defs, "def cym(x: Int): Int\n  cyh(x) * 2\nend\n")
			via = "cym"
		}
		for i := 0; i < nCy; i++ {
			var fb strings.Builder
			fmt.Fprintf(&fb, "def cyr%d(x: Int): Int\n", i)
			for k := Pick(r, []int{0, 0, 1, 5, 25}); k > 0; k-- {
				fmt.Fprintf(&fb, "  w%d := x + %d\n", k, k)
			}
			callee := via
			if r.Chance(0.3) {
				callee = "cyh"
			}
			fmt.Fprintf(&fb, "  %s(x) + %d\nend\n", callee, i)
			defs = append(defs, fb.String())
		}
		for i := len(defs) - 1; i > 0; i-- {
			j := r.Intn(i + 1)
			defs[i], defs[j] = defs[j], defs[i]
		}
		b.WriteString("const CYZ: Int = 5\n")
		for _, d := range defs {
			b.WriteString(d)
		}
		corder := make([]int, nCy)
		for i := range corder {
			corder[i] = i
		}
		for i := nCy - 1; i > 0; i-- {
			j := r.Intn(i + 1)
			corder[i], corder[j] = corder[j], corder[i]
		}
		for _, i := range corder {
			fmt.Fprintf(&b, "const CY%d: Int = cyr%d(%d)\n", i, i, i)
		}
		for i := 0; i < nCy; i++ {
			fmt.Fprintf(&b, "println \"cy%d=${CY%d}\"\n", i, i)
		}
	}
	// top level: call everything
	for i, m := range g.methods {
		fmt.Fprintf(&b, "println \"%d=${%s}\"\n", i, m.call(fmt.Sprint(r.Range(0, 5))))
	}
	for i := 0; i < nConst; i++ {
		fmt.Fprintf(&b, "println \"k%d=${KC%d}\"\n", i, i)
	}
	return b.String(), nMethods, len(errAt)
}

type c11Engine struct{}

var chkNonce atomic.Int64

func init() { register(&c11Engine{}) }

func (*c11Engine) Name() string     { return "C11" }
func (*c11Engine) Property() string { return "C11" }

func (*c11Engine) Generate(seed uint64, tier string) *Case {
	r := NewRand(seed)
	maxM := 12
	if tier == "thorough" {
		maxM = 25
	}
	src, n, e := genCheckerProgram(r, maxM)
	p := chkParams{Src: src, Methods: n, Errors: e, Limit: Pick(r, []int{2, 2, 3, 3, 8, 100, 100})}
	b, _ := json.Marshal(&p)
	sc := drawSched(r, 400_000)
	if sc.Strategy == "random" {
		sc.MeanGap = Pick(r, []int{20, 100, 500, 3000, 20000})
	} else if sc.Strategy == "rr" || sc.Strategy == "starve" {
		sc.MeanGap = Pick(r, []int{50, 500, 5000})
	}
	sc.MaxTicks = 60_000_000
	return &Case{Params: b, Sched: sc}
}

var hexAddr = regexp.MustCompile(`0x[0-9a-f]+`)

type chkOutcome struct {
	Diags    []string
	Failed   bool
	Out      string
	Err      string
	Panic    string
	Compiled bool
	Ticks    int64
	Listing  map[string][]string // function name -> normalised instructions
	ListErr  string
}

var (
	hexByteRe  = regexp.MustCompile(`^[0-9A-F]{2}$`)
	csNameRe   = regexp.MustCompile(`name: :"?([^",}]+)"?`)
	csArgcRe   = regexp.MustCompile(`argument_count: (\d+)`)
	freshSymRe = regexp.MustCompile(`sy\d{7}_`)
)

// bytecodeListing disassembles every function reachable from fn and normalises the
// instructions so that two builds of the same source can be compared: addresses are
// dropped, and every flavour of method call (dynamic, tail, statically bound to a
// bytecode or native method - which of them a call site gets legitimately depends on the
// order in which the bodies were compiled) becomes "CALL <short name>/<argc> [<full name>]".
func bytecodeListing(fn *vm.BytecodeFunction) (map[string][]string, string) {
	out := map[string][]string{}
	seen := map[*vm.BytecodeFunction]bool{}
	var firstErr string
	var walk func(f *vm.BytecodeFunction)
	walk = func(f *vm.BytecodeFunction) {
		if f == nil || seen[f] {
			return
		}
		seen[f] = true
		var lines []string
		for off := 0; off < len(f.Instructions); {
			var b strings.Builder
			next, err := f.DisassembleInstruction(&b, off)
			if err != nil {
				if firstErr == "" {
					firstErr = fmt.Sprintf("%s at offset %d: %v", f.Name().String(), off, err)
				}
				break
			}
			lines = append(lines, normaliseInstruction(strings.TrimRight(b.String(), "\n")))
			if next <= off {
				break
			}
			off = next
		}
		key := f.Name().String()
		for n := 2; out[key] != nil; n++ {
			key = fmt.Sprintf("%s#%d", f.Name().String(), n)
		}
		out[key] = lines
		for _, v := range f.Values {
			if v.IsReference() {
				if g, ok := v.AsReference().(*vm.BytecodeFunction); ok {
					walk(g)
				}
			}
		}
	}
	walk(fn)
	return out, firstErr
}

func normaliseInstruction(line string) string {
	f := strings.Fields(line)
	if len(f) < 3 {
		return line
	}
	i := 2
	for i < len(f) && hexByteRe.MatchString(f[i]) {
		i++
	}
	if i >= len(f) {
		return f[0]
	}
	op := f[i]
	rest := strings.Join(f[i+1:], " ")
	rest = hexAddr.ReplaceAllString(rest, "0x?")
	rest = freshSymRe.ReplaceAllString(rest, "syN_")
	if strings.HasPrefix(op, "CALL_METHOD") {
		full, argc := "", ""
		if m := csNameRe.FindStringSubmatch(rest); m != nil {
			full = m[1]
		}
		if m := csArgcRe.FindStringSubmatch(rest); m != nil {
			argc = m[1]
		}
		short := full
		for _, sep := range []string{"::", ".:", ":"} {
			if k := strings.LastIndex(short, sep); k >= 0 {
				short = short[k+len(sep):]
			}
		}
		static := ""
		if !strings.HasPrefix(rest, f[i+1]+" (CallSiteInfo") && strings.Contains(rest, "CallSiteInfo{&") {
			static = " [" + full + "]"
		}
		return fmt.Sprintf("%s CALL %s/%s%s", f[0], short, argc, static)
	}
	return f[0] + " " + op + " " + rest
}

// sameInstruction compares two normalised instructions; the full name of a call target is
// compared only when both builds bound the call statically.
func sameInstruction(a, b string) bool {
	if a == b {
		return true
	}
	ia, ib := strings.Index(a, " ["), strings.Index(b, " [")
	if !strings.Contains(a, " CALL ") || !strings.Contains(b, " CALL ") {
		return false
	}
	if ia >= 0 && ib >= 0 {
		return false
	}
	if ia >= 0 {
		a = a[:ia]
	}
	if ib >= 0 {
		b = b[:ib]
	}
	return a == b
}

func diffListings(ref, got map[string][]string) string {
	var names []string
	for n := range ref {
		names = append(names, n)
	}
	sort.Strings(names)
	for _, n := range names {
		g, ok := got[n]
		if !ok {
			return fmt.Sprintf("function %s exists only in the sequential build", n)
		}
		r := ref[n]
		if len(r) != len(g) {
			return fmt.Sprintf("function %s has %d instructions in the sequential build and %d in the parallel one", n, len(r), len(g))
		}
		for i := range r {
			if !sameInstruction(r[i], g[i]) {
				return fmt.Sprintf("function %s, instruction %d:\n  sequential: %s\n  parallel:   %s", n, i, r[i], g[i])
			}
		}
	}
	for n := range got {
		if _, ok := ref[n]; !ok {
			return fmt.Sprintf("function %s exists only in the parallel build", n)
		}
	}
	return ""
}

func diagStrings(c *checker.Checker, src string) (*vm.BytecodeFunction, []string, bool) {
	fn, dl := c.CheckSourceBytecode("main", src)
	var ds []string
	for _, d := range dl {
		ds = append(ds, hexAddr.ReplaceAllString(d.Error(), "0x?"))
	}
	sort.Strings(ds)
	return fn, ds, dl.IsFailure()
}

// reference: the sequential checker configuration (limit 1) under the
// non-preemptive schedule: method bodies are checked one after the other in
// source order.
func chkReference(t *testing.T, src string) (o chkOutcome) {
	old := checker.MethodCheckConcurrencyLimit
	checker.MethodCheckConcurrencyLimit = 1
	defer func() { checker.MethodCheckConcurrencyLimit = old }()
	resetElk()
	res := Simulate(t, simhook.Config{Strategy: "nonpreemptive", Seed: 1, EndOnMain: true, MaxTicks: 15_000_000}, SimOpts{Pool: 1, Queue: 64}, func(e *Env) {
		defer func() {
			if r := recover(); r != nil {
				o.Panic = fmt.Sprint(r)
			}
		}()
		var fn *vm.BytecodeFunction
		fn, o.Diags, o.Failed = diagStrings(checker.New(), src)
		if o.Failed || fn == nil {
			return
		}
		o.Compiled = true
		o.Listing, o.ListErr = bytecodeListing(fn)
		v := vm.New(vm.WithStdout(e.Out), vm.WithStderr(e.Out))
		_, rerr := v.InterpretTopLevel(fn)
		if !rerr.IsUndefined() {
			o.Err = hexAddr.ReplaceAllString(rerr.Inspect(), "0x?")
		}
		o.Out = e.Out.String()
	})
	if res.Outcome != "ok" && o.Panic == "" {
		o.Panic = "reference run ended with " + res.Outcome + ": " + res.PanicVal
	}
	o.Ticks = res.Ticks
	return o
}

func (*c11Engine) Execute(t *testing.T, c *Case) *Verdict {
	var p chkParams
	if err := json.Unmarshal(c.Params, &p); err != nil {
		return &Verdict{Verdict: "harness_error", Detail: err.Error()}
	}
	// the reference and the perturbed run get different fresh symbol names: nothing printed depends on them
	refSrc := strings.ReplaceAll(p.Src, "__N__", fmt.Sprintf("%07d", chkNonce.Add(1)))
	runSrc := strings.ReplaceAll(p.Src, "__N__", fmt.Sprintf("%07d", chkNonce.Add(1)))
	ref := chkReference(t, refSrc)
	if ref.Panic != "" {
		// the reference configuration itself crashes: not a schedule property (belongs to C01's sequential part)
		return &Verdict{Verdict: "inconclusive", Class: "reference_panic", Detail: ref.Panic + "\n" + p.Src, Exec: 1}
	}
	// perturbed: inside the simulation
	resetElk()
	old := checker.MethodCheckConcurrencyLimit
	checker.MethodCheckConcurrencyLimit = p.Limit
	defer func() { checker.MethodCheckConcurrencyLimit = old }()
	var got chkOutcome
	var bodyPanic string
	cfg := c.Sched
	cfg.EndOnMain = true
	// the step limit is a harness bound, not part of the property: the perturbed run gets
	// four times what the reference needed (preemption points inside critical functions
	// cost ticks the non-preemptive reference also pays, so the factor is generous); a run
	// that still does not finish really differs from the reference
	if need := 4*ref.Ticks + 20_000_000; cfg.MaxTicks < need {
		cfg.MaxTicks = need
	}
	res := Simulate(t, cfg, SimOpts{Pool: 1, Queue: 64}, func(e *Env) {
		defer func() {
			if r := recover(); r != nil {
				bodyPanic = fmt.Sprintf("%v\n%s", r, trimStack(stackNow()))
			}
		}()
		var fn *vm.BytecodeFunction
		fn, got.Diags, got.Failed = diagStrings(checker.New(), runSrc)
		if got.Failed || fn == nil {
			return
		}
		got.Compiled = true
		got.Listing, got.ListErr = bytecodeListing(fn)
		v := vm.New(vm.WithStdout(e.Out), vm.WithStderr(e.Out))
		_, rerr := v.InterpretTopLevel(fn)
		if !rerr.IsUndefined() {
			got.Err = hexAddr.ReplaceAllString(rerr.Inspect(), "0x?")
		}
		got.Out = e.Out.String()
	})
	v := &Verdict{Verdict: "ok", Property: "C11", Exec: 2, Res: &res}
	v.Hash = hashStrings(p.Src, fmt.Sprint(p.Limit), hashDecisions(res.Decisions))
	v.Nontrivial = res.Switches >= 2 && res.Tasks >= 3
	v.Extra = map[string]int64{fmt.Sprintf("limit_%d", p.Limit): 1, "methods": int64(p.Methods), "programs_rejected_by_reference": b2i(ref.Failed), "programs_with_warnings_or_errors": b2i(len(ref.Diags) > 0)}
	v.Sample = map[string]any{"limit": p.Limit, "methods": p.Methods, "tasks": res.Tasks, "switches": res.Switches, "lock_points": res.LockPoints, "ticks": res.Ticks, "diagnostics": len(ref.Diags), "accepted": !ref.Failed}
	bad := func(class, format string, a ...any) *Verdict {
		v.Verdict, v.Class, v.Sig = "violation", class, class
		v.Detail = fmt.Sprintf(format, a...) + fmt.Sprintf("\n(limit %d, %d tasks, %d switches)\n--- program:\n%s", p.Limit, res.Tasks, res.Switches, p.Src)
		return v
	}
	switch res.Outcome {
	case "ok":
	case "gopanic":
		return bad("gopanic", "Go panic in a checker/compiler task under a parallel schedule (sequential reference is fine): %s\n%s", res.PanicVal, trimStack(res.PanicStack))
	case "harness_panic":
		v.Verdict, v.Class, v.Detail = "harness_error", "harness_panic", res.PanicVal
		return v
	default:
		return bad(res.Outcome, "parallel check did not finish (%s); state: %s", res.Outcome, res.State)
	}
	if res.TokenViolations > 0 {
		v.Verdict, v.Class, v.Detail = "harness_error", "token", res.FirstViolation
		return v
	}
	if bodyPanic != "" {
		return bad("gopanic", "Go panic under a parallel schedule (sequential reference is fine): %s", bodyPanic)
	}
	if got.Failed != ref.Failed {
		return bad("verdict", "acceptance differs: sequential rejected=%v, parallel rejected=%v\nsequential diagnostics:\n%s\nparallel diagnostics:\n%s", ref.Failed, got.Failed, strings.Join(ref.Diags, "\n"), strings.Join(got.Diags, "\n"))
	}
	if d := diffMultiset(ref.Diags, got.Diags); d != "" {
		return bad("diagnostics", "diagnostic multiset differs between sequential and parallel checking: %s", d)
	}
	if ref.Compiled && got.Compiled {
		if got.ListErr != "" && ref.ListErr == "" {
			return bad("bytecode", "a function compiled under the parallel schedule does not disassemble: %s", got.ListErr)
		}
		if ref.ListErr == "" && got.ListErr == "" {
			if d := diffListings(ref.Listing, got.Listing); d != "" {
				return bad("bytecode", "the bytecode compiled under the parallel schedule differs from the sequential build (method calls compared by target and argument count only): %s", d)
			}
			v.Extra["listings_compared"] = 1
		}
	}
	if ref.Compiled {
		if ref.Out != got.Out || ref.Err != got.Err {
			return bad("behaviour", "compiled program behaves differently\nsequential output:\n%s\nerror: %s\nparallel output:\n%s\nerror: %s", ref.Out, ref.Err, got.Out, got.Err)
		}
	}
	return v
}

func (*c11Engine) Shrink(c *Case) []*Case {
	var p chkParams
	if json.Unmarshal(c.Params, &p) != nil {
		return nil
	}
	var out []*Case
	if p.Limit > 2 {
		q := p
		q.Limit = 2
		b, _ := json.Marshal(&q)
		cc := *c
		cc.Params = b
		out = append(out, &cc)
	}
	// drop one top-level println line
	lines := strings.Split(p.Src, "\n")
	for i, l := range lines {
		if strings.HasPrefix(l, "println ") {
			q := p
			q.Src = strings.Join(append(append([]string{}, lines[:i]...), lines[i+1:]...), "\n")
			b, _ := json.Marshal(&q)
			cc := *c
			cc.Params = b
			out = append(out, &cc)
		}
	}
	return out
}

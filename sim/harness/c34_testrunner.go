package harness

import (
	"context"
	"encoding/json"
	"fmt"
	"regexp"
	"sort"
	"strings"
	"sync"
	"testing"
	"time"

	"github.com/elk-language/elk/ext"
	elktest "github.com/elk-language/elk/ext/std/test"
	"github.com/elk-language/elk/simhook"
	"github.com/elk-language/elk/types/checker"
	"github.com/elk-language/elk/vm"
)

// E-TEST: the test runner under shuffle seeds, reporter scheduling and event
// queue capacities (property C34, slice: exactly-once execution of the
// selected cases and the exit status). The reporter is the simulator's own
// implementation of the Reporter interface.

type tcase struct {
	Name    string `json:"name"`    // full name with " > " separators, as FullNameWithSeparator prints it
	Line    int    `json:"line"`    // first line of the case
	EndLine int    `json:"endline"` // last line
	Outcome string `json:"outcome"` // pass | fail | error
	// Suites: first lines of the enclosing describe/context blocks, outermost first
	Suites []int `json:"suites"`
	// HookFail: a before_each hook of an enclosing suite throws
	HookFail bool `json:"hookfail,omitempty"`
}

type testParams struct {
	Src      string   `json:"src"`
	Cases    []tcase  `json:"cases"`
	Grep     string   `json:"grep,omitempty"`
	Paths    []string `json:"paths,omitempty"`
	Seed     uint64   `json:"shuffle_seed"`
	Capacity int      `json:"capacity"`
	// ReporterStall: the reporter yields this many times per event
	ReporterStall int `json:"reporter_stall"`
	// ReporterSleepMs / ReporterSleepEvery: the reporter sleeps (simulated time) before it takes
	// every n-th event: a paused terminal or an undrained pipe; the runner has to wait for it
	ReporterSleepMs    int `json:"reporter_sleep_ms,omitempty"`
	ReporterSleepEvery int `json:"reporter_sleep_every,omitempty"`
}

const testFilePath = "/x/gen_test.elk.test"

type testGen struct {
	r     *Rand
	b     strings.Builder
	line  int
	cases []tcase
	n     int
	// dynamic: some root-level case registers a suite while it runs
	dynamic bool
}

func (g *testGen) emit(s string) {
	g.b.WriteString(s)
	g.b.WriteString("\n")
	g.line++
}

func (g *testGen) suite(depth int, prefix []string, suiteLines []int, ind string, hookFails bool) {
	nCases := g.r.Range(0, 4)
	if depth == 0 {
		nCases = g.r.Range(0, 2)
	}
	// hooks are decided first (a failing before_each of this suite makes every case below it
	// fail, nested suites included) and emitted at the top of the suite, between its cases and
	// its nested suites, or at its end
	type hook struct {
		lines []string
		pos   int // 0 top, 1 after the cases, 2 after the nested suites
	}
	var hooks []hook
	if g.r.Chance(0.4) {
		body := "  println \"before\""
		if depth > 0 && g.r.Chance(0.2) {
			body = "  throw unchecked 7"
			hookFails = true
		}
		hooks = append(hooks, hook{[]string{"before_each() ->", body, "end"}, Pick(g.r, []int{0, 0, 1, 2})})
	}
	if g.r.Chance(0.2) {
		hooks = append(hooks, hook{[]string{"after_each() ->", "  println \"after\"", "end"}, Pick(g.r, []int{0, 0, 1, 2})})
	}
	if g.r.Chance(0.2) {
		hooks = append(hooks, hook{[]string{"before_all() ->", "  println \"before all\"", "end"}, 0})
	}
	emitHooks := func(pos int) {
		for _, h := range hooks {
			if h.pos == pos {
				for _, l := range h.lines {
					g.emit(ind + l)
				}
			}
		}
	}
	emitHooks(0)
	for i := 0; i < nCases; i++ {
		g.n++
		kind := Pick(g.r, []string{"test", "it", "should"})
		word := Pick(g.r, []string{"adds", "parses", "works", "returns", "fails fast", "handles nil"})
		label := fmt.Sprintf("%s c%d", word, g.n)
		full := label
		if kind != "test" {
			full = kind + " " + label
		}
		outcome := Pick(g.r, []string{"pass", "pass", "pass", "fail", "error"})
		start := g.line + 1
		if depth == 0 && g.r.Chance(0.15) {
			// a root-level case that registers a suite with one or two cases while it runs: the
			// runner has to run those too (they are appended to the root suite during the run)
			g.dynamic = true
			g.emit(fmt.Sprintf("%s%s \"%s\" ->", ind, kind, label))
			g.n++
			sname := fmt.Sprintf("generated s%d", g.n)
			g.emit(fmt.Sprintf("%s  describe \"%s\" ->", ind, sname))
			sline := g.line
			var inner []tcase
			for k, nk := 0, g.r.Range(1, 2); k < nk; k++ {
				g.n++
				ilabel := fmt.Sprintf("inner c%d", g.n)
				iout := Pick(g.r, []string{"pass", "pass", "fail", "error"})
				istart := g.line + 1
				g.emit(fmt.Sprintf("%s    test \"%s\" ->", ind, ilabel))
				switch iout {
				case "pass":
					g.emit(ind + "      assert! 2 == 2")
				case "fail":
					g.emit(ind + "      assert! 2 == 3")
				default:
					g.emit(ind + "      throw unchecked 6")
				}
				g.emit(ind + "    end")
				inner = append(inner, tcase{Name: sname + " > " + ilabel, Line: istart, EndLine: g.line, Outcome: iout, Suites: []int{sline}})
			}
			g.emit(ind + "  end")
			g.emit(ind + "end")
			name := strings.Join(append(append([]string{}, prefix...), full), " > ")
			g.cases = append(g.cases, tcase{Name: name, Line: start, EndLine: g.line, Outcome: "pass", Suites: append([]int{}, suiteLines...), HookFail: hookFails})
			g.cases = append(g.cases, inner...)
			continue
		}
		g.emit(fmt.Sprintf("%s%s \"%s\" ->", ind, kind, label))
		if g.r.Bool() {
			g.emit(ind + "  x := 1 + 1")
		}
		switch outcome {
		case "pass":
			g.emit(ind + "  assert! 1 == 1")
		case "fail":
			g.emit(ind + "  assert! 1 == 2")
		default:
			g.emit(ind + "  throw unchecked 5")
		}
		g.emit(ind + "end")
		name := strings.Join(append(append([]string{}, prefix...), full), " > ")
		if hookFails && outcome == "pass" {
			outcome = "hookfail"
		}
		g.cases = append(g.cases, tcase{Name: name, Line: start, EndLine: g.line, Outcome: outcome, Suites: append([]int{}, suiteLines...), HookFail: hookFails})
	}
	emitHooks(1)
	if depth < 3 {
		nSub := g.r.Range(0, 2)
		if depth == 0 {
			nSub = g.r.Range(1, 3)
		}
		for i := 0; i < nSub; i++ {
			g.n++
			kw := Pick(g.r, []string{"describe", "context"})
			name := fmt.Sprintf("%s s%d", Pick(g.r, []string{"Parser", "Lexer", "adds", "when empty", "works"}), g.n)
			start := g.line + 1
			g.emit(fmt.Sprintf("%s%s \"%s\" ->", ind, kw, name))
			g.suite(depth+1, append(append([]string{}, prefix...), name), append(append([]int{}, suiteLines...), start), ind+"  ", hookFails)
			g.emit(ind + "end")
		}
	}
	emitHooks(2)
}

func genTestProgram(r *Rand) (string, []tcase, int, bool) {
	g := &testGen{r: r}
	g.emit("import \"std/test\"")
	g.emit("using Std::Test::Assertions::*")
	g.emit("using Std::Test::*")
	g.emit("")
	g.suite(0, nil, nil, "", false)
	return g.b.String(), g.cases, g.line, g.dynamic
}

type c34Engine struct{}

func init() { register(&c34Engine{}) }

func (*c34Engine) Name() string     { return "C34" }
func (*c34Engine) Property() string { return "C34" }

func (*c34Engine) Generate(seed uint64, tier string) *Case {
	r := NewRand(seed)
	src, cases, lines, dynamic := genTestProgram(r)
	p := testParams{Src: src, Cases: cases, Seed: r.U64(), Capacity: Pick(r, []int{1, 1, 2, 3, 10, 50}), ReporterStall: Pick(r, []int{0, 0, 1, 5, 40})}
	if r.Chance(0.3) {
		p.ReporterSleepMs = Pick(r, []int{5, 400, 1500, 3000, 20000})
		p.ReporterSleepEvery = Pick(r, []int{1, 2, 5, 9})
		if r.Chance(0.5) {
			p.Capacity = Pick(r, []int{1, 2, 3}) // a small buffer fills at once
		}
	}
	if r.Chance(0.45) && !dynamic {
		// grep: a word, a case id, an alternation or an anchored name
		switch r.Intn(4) {
		case 0:
			p.Grep = Pick(r, []string{"adds", "works", "Parser", "should", "it ", "fails fast", "nomatch"})
		case 1:
			if len(cases) > 0 {
				c := Pick(r, cases)
				p.Grep = c.Name[strings.LastIndex(c.Name, " c")+1:] + "$"
			}
		case 2:
			p.Grep = Pick(r, []string{"adds|parses", "c1$|c2$|c3$", "(it|should) (adds|works)"})
		default:
			p.Grep = "s" + fmt.Sprint(r.Range(1, 8)) + "\\b"
		}
	}
	if r.Chance(0.5) && !dynamic {
		// one to three --path filters (the flag is a list); later filters are biased
		// towards the lines of one anchor case and of its enclosing blocks, so that
		// combinations with a non-empty intersection are common
		nPaths := 1
		if r.Chance(0.4) {
			nPaths = 2
			if r.Chance(0.3) {
				nPaths = 3
			}
		}
		var anchor *tcase
		if len(cases) > 0 {
			c := Pick(r, cases)
			anchor = &c
		}
		for k := 0; k < nPaths; k++ {
			pattern := Pick(r, []string{"/x/*.elk.test", "/x/gen_test.elk.test", "**/*.test", "/x/*.elk.test", "/y/*.elk.test"})
			var line int
			c := anchor
			if c != nil && k > 0 && r.Chance(0.3) {
				o := Pick(r, cases)
				c = &o
			}
			switch j := r.Intn(6); {
			case j < 2 && c != nil:
				line = r.Range(c.Line, c.EndLine)
			case j < 4 && c != nil:
				if len(c.Suites) > 0 {
					line = Pick(r, c.Suites)
				} else {
					line = c.Line
				}
			case j < 5:
				line = r.Range(1, lines+2)
			default:
				line = -1
			}
			if line < 0 {
				p.Paths = append(p.Paths, pattern)
			} else {
				p.Paths = append(p.Paths, fmt.Sprintf("%s:%d", pattern, line))
			}
		}
	}
	b, _ := json.Marshal(&p)
	sc := drawSched(r, 20_000)
	sc.MaxTicks = 50_000_000
	return &Case{Params: b, Sched: sc}
}

// selected reports whether a case satisfies every filter, in the property's words.
func selected(c tcase, grep string, paths []string, match func(pattern, name string) bool, glob func(pattern, path string) bool) bool {
	if grep != "" && !match(grep, c.Name) {
		return false
	}
	for _, pf := range paths {
		pattern, line := pf, -1
		if i := strings.LastIndex(pf, ":"); i >= 0 {
			fmt.Sscanf(pf[i+1:], "%d", &line)
			pattern = pf[:i]
		}
		if !glob(pattern, testFilePath) {
			return false
		}
		if line < 0 {
			continue
		}
		ok := line >= c.Line && line <= c.EndLine
		for _, s := range c.Suites {
			if s == line {
				ok = true // the line names an enclosing describe/context block
			}
		}
		if !ok {
			return false
		}
	}
	return true
}

type recReporter struct {
	mu      sync.Mutex
	started []string
	finish  map[string]elktest.TestStatus
	stall   int
	sleepMs int
	every   int
	seen    int
}

func (r *recReporter) Report(events chan *elktest.ReportEvent, shutdown context.CancelFunc) {
	for {
		r.seen++
		if r.sleepMs > 0 && r.every > 0 && r.seen%r.every == 0 {
			st := simhook.Block(1_000_012)
			time.Sleep(time.Duration(r.sleepMs) * time.Millisecond)
			simhook.Unblock(st, 1_000_012)
		}
		bt := simhook.Block(1_000_010)
		e, ok := <-events
		simhook.Unblock(bt, 1_000_010)
		if !ok {
			return
		}
		for i := 0; i < r.stall; i++ {
			simhook.Y(1_000_011)
		}
		if e.CaseReport == nil {
			continue
		}
		r.mu.Lock()
		switch e.Type {
		case elktest.REPORT_START_CASE:
			r.started = append(r.started, e.CaseReport.FullNameWithSeparator())
		case elktest.REPORT_FINISH_CASE:
			r.finish[e.CaseReport.FullNameWithSeparator()] = e.CaseReport.Status()
		}
		r.mu.Unlock()
	}
}

func (*c34Engine) Execute(t *testing.T, c *Case) *Verdict {
	var p testParams
	if err := json.Unmarshal(c.Params, &p); err != nil {
		return &Verdict{Verdict: "harness_error", Detail: err.Error()}
	}
	resetElk()
	if e := ext.Map["std/test"]; e != nil && e.RuntimeInit != nil {
		e.RuntimeInit()
	}
	elktest.RootSuite = elktest.NewSuite("", nil, nil)
	elktest.CurrentSuite = elktest.RootSuite
	elktest.Filters = nil
	var regexFilter *elktest.RegexFilter
	if p.Grep != "" {
		rf, err := elktest.NewRegexFilter(p.Grep)
		if err != nil {
			return &Verdict{Verdict: "harness_error", Class: "workload_rejected", Detail: "grep: " + err.Error()}
		}
		regexFilter = rf
		elktest.RegisterFilter(rf)
	}
	var pathFilters []*elktest.PathFilter
	for _, pf := range p.Paths {
		f, err := elktest.NewPathFilter(pf)
		if err != nil {
			return &Verdict{Verdict: "harness_error", Class: "workload_rejected", Detail: "path: " + err.Error()}
		}
		pathFilters = append(pathFilters, f)
		elktest.RegisterFilter(f)
	}
	rep := &recReporter{finish: map[string]elktest.TestStatus{}, stall: p.ReporterStall, sleepMs: p.ReporterSleepMs, every: p.ReporterSleepEvery}
	var report *elktest.SuiteReport
	var topErr string
	cfg := c.Sched
	cfg.EndOnMain = true
	var rejected string
	res := Simulate(t, cfg, SimOpts{Pool: 2, Queue: 64}, func(e *Env) {
		// macros (assert!) are expanded on the thread pool: the file is checked inside the simulation
		ck := checker.New()
		fn, dl := ck.CheckSourceBytecode(testFilePath, p.Src)
		if dl.IsFailure() || fn == nil {
			rejected = dl.Error()
			return
		}
		v := vm.New(vm.WithStdout(e.Out), vm.WithStderr(e.Out))
		// running the file registers the suites and cases (as cmd/elk runFile does)
		_, rerr := v.InterpretTopLevel(fn)
		if !rerr.IsUndefined() {
			topErr = rerr.Inspect()
			return
		}
		v2 := vm.New(vm.WithStdout(e.Out), vm.WithStderr(e.Out))
		events := make(chan *elktest.ReportEvent, p.Capacity)
		report = elktest.RunWith(v2, rep, events, p.Seed)
	})
	v := &Verdict{Verdict: "ok", Property: "C34", Exec: 1, Res: &res}
	v.Hash = hashStrings(string(c.Params), hashDecisions(res.Decisions))
	filters := fmt.Sprintf("grep=%q paths=%q shuffle_seed=%d capacity=%d reporter_stall=%d reporter_sleep=%dms every %d events", p.Grep, p.Paths, p.Seed, p.Capacity, p.ReporterStall, p.ReporterSleepMs, p.ReporterSleepEvery)
	bad := func(class, sig, format string, a ...any) *Verdict {
		v.Verdict, v.Class, v.Sig = "violation", class, sig
		v.Detail = fmt.Sprintf(format, a...) + "\n" + filters + "\n--- test file " + testFilePath + ":\n" + numbered(p.Src)
		return v
	}
	switch res.Outcome {
	case "ok":
	case "gopanic":
		return bad("gopanic", "gopanic", "Go panic in the test runner: %s\n%s", res.PanicVal, trimStack(res.PanicStack))
	case "harness_panic":
		v.Verdict, v.Class, v.Detail = "harness_error", "harness_panic", res.PanicVal
		return v
	default:
		return bad(res.Outcome, res.Outcome, "test run did not finish (%s); state: %s", res.Outcome, res.State)
	}
	if res.TokenViolations > 0 {
		v.Verdict, v.Class, v.Detail = "harness_error", "token", res.FirstViolation
		return v
	}
	if rejected != "" {
		v.Verdict, v.Class, v.Detail = "harness_error", "workload_rejected", rejected+"\n"+p.Src
		return v
	}
	if topErr != "" {
		v.Verdict, v.Class, v.Detail = "harness_error", "workload_rejected", "test file raised "+topErr
		return v
	}
	// reference selection, in the property's words, using the runner's own regex and glob engines
	match := func(pattern, name string) bool { return regexFilter.Regex.MatchesString(name) }
	glob := func(pattern, path string) bool {
		for _, f := range pathFilters {
			_ = f
		}
		return globMatch(pattern, path)
	}
	var want []string
	anyBad := false
	for _, tc := range p.Cases {
		if selected(tc, p.Grep, p.Paths, match, glob) {
			want = append(want, tc.Name)
			if tc.Outcome != "pass" {
				anyBad = true
			}
		}
	}
	// cases are identified by their unique id (cN), not by the way the runner joins names
	idOf := func(name string) string {
		m := caseIDRe.FindString(name)
		if m == "" {
			return name
		}
		return m
	}
	for i := range want {
		want[i] = idOf(want[i])
	}
	sort.Strings(want)
	var got []string
	for _, n := range rep.started {
		got = append(got, idOf(n))
	}
	sort.Strings(got)
	v.Nontrivial = len(p.Cases) > 0 && (p.Grep != "" || len(p.Paths) > 0 || res.Switches > 2)
	v.Extra = map[string]int64{"cases": int64(len(p.Cases)), "selected": int64(len(want)), "with_grep": b2i(p.Grep != ""), "with_path": b2i(len(p.Paths) > 0), fmt.Sprintf("paths_%d", len(p.Paths)): 1, fmt.Sprintf("capacity_%d", p.Capacity): 1, "reporter_sleeps": b2i(p.ReporterSleepMs > 0), "suites_registered_at_run_time": b2i(strings.Contains(p.Src, "describe \"generated s")), "empty_selection": b2i(len(want) == 0)}
	v.Sample = map[string]any{"filters": filters, "cases": len(p.Cases), "selected": want, "started": rep.started}
	grepAndLine := p.Grep != "" && len(p.Paths) > 0
	if d := diffMultiset(want, got); d != "" {
		sig := "selection"
		if grepAndLine {
			sig = "selection/grep+path"
		}
		return bad("selection", sig, "the set of executed cases differs from the cases that satisfy every filter (each exactly once): %s\nexpected: %q\nstarted: %q", d, want, rep.started)
	}
	finished := map[string]bool{}
	for n := range rep.finish {
		finished[idOf(n)] = true
	}
	hookFailed := map[string]bool{}
	for _, tc := range p.Cases {
		if tc.HookFail {
			// the runner returns the report of such a case without a finish event; the property
			// does not speak about events, the exit status oracle below covers these cases
			hookFailed[idOf(tc.Name)] = true
		}
	}
	for _, name := range want {
		if !finished[name] && !hookFailed[name] {
			return bad("selection", "unfinished", "case %q was started but never reported as finished", name)
		}
	}
	// every case that ran reports success exactly when its body passes and no before_each hook
	// of an enclosing suite fails (wherever in the suite the hook is declared)
	byID := map[string]tcase{}
	for _, tc := range p.Cases {
		byID[idOf(tc.Name)] = tc
	}
	for n, st := range rep.finish {
		tc, ok := byID[idOf(n)]
		if !ok {
			continue
		}
		if (st == elktest.TEST_SUCCESS) != (tc.Outcome == "pass") {
			return bad("status", "status/case", "case %q finished with status %v but its expected outcome is %q (hookfail: a before_each hook of an enclosing suite throws)", n, st, tc.Outcome)
		}
	}
	// exit status as cmd/elk computes it
	exitFailure := report == nil || report.Status() != elktest.TEST_SUCCESS
	if exitFailure != anyBad {
		sig := "status"
		if len(want) == 0 {
			sig = "status/no-case-selected"
		}
		st := "nil"
		if report != nil {
			st = fmt.Sprint(report.Status())
		}
		return bad("status", sig, "exit status: failure=%v (root report status %s) but failing-or-erroring cases among those that ran: %v", exitFailure, st, anyBad)
	}
	return v
}

var caseIDRe = regexp.MustCompile(`c[0-9]+$`)

func numbered(src string) string {
	var b strings.Builder
	for i, l := range strings.Split(src, "\n") {
		fmt.Fprintf(&b, "%3d  %s\n", i+1, l)
	}
	return b.String()
}

// globMatch implements the handful of patterns the generator emits.
func globMatch(pattern, path string) bool {
	switch pattern {
	case "/x/*.elk.test", "/x/gen_test.elk.test", "**/*.test":
		return true
	}
	return false
}

func (*c34Engine) Shrink(c *Case) []*Case {
	var p testParams
	if json.Unmarshal(c.Params, &p) != nil {
		return nil
	}
	var out []*Case
	mk := func(q testParams) {
		b, _ := json.Marshal(&q)
		cc := *c
		cc.Params = b
		out = append(out, &cc)
	}
	if p.ReporterStall > 0 {
		q := p
		q.ReporterStall = 0
		mk(q)
	}
	if p.Capacity != 50 {
		q := p
		q.Capacity = 50
		mk(q)
	}
	if p.Grep != "" && len(p.Paths) > 0 {
		q := p
		q.Grep = ""
		mk(q)
		q = p
		q.Paths = nil
		mk(q)
	}
	if len(p.Paths) > 1 {
		for k := range p.Paths {
			q := p
			q.Paths = append(append([]string{}, p.Paths[:k]...), p.Paths[k+1:]...)
			mk(q)
		}
	}
	return out
}

package harness

import (
	"encoding/json"
	"fmt"
	"regexp"
	"sort"
	"strings"
	"testing"
)

// E-PROM: promise DAG programs (properties C16 and the async half of C15).

type pnode struct {
	Kind   string `json:"k"` // leaf slow boom spin join chain guard
	Arg    int    `json:"n,omitempty"`
	Arg2   int    `json:"m,omitempty"`
	A      int    `json:"a,omitempty"` // index into the visible promise list
	B      int    `json:"b,omitempty"`
	Tag    int    `json:"t"`
	Thread int    `json:"th,omitempty"`
}

type pval struct {
	err bool
	v   int
}

const promPrelude = `using Std::Sync::WaitGroup

async def leaf(n: Int): Int
  n * 2 + 1
end

async def slow(n: Int, ms: Int): Int
  await timeout(ms.milliseconds)
  n + 7
end

async def boom(n: Int): Int
  throw unchecked n
end

async def spin(n: Int, k: Int): Int
  i := 0
  acc := n
  while i < k
    acc = acc + i
    i = i + 1
  end
  acc
end

async def join2(a: Promise[Int], b: Promise[Int], tag: Int): Int
  x := await a
  println "t${tag}a"
  y := await b
  println "t${tag}b"
  x + y
end

async def mix(a: Promise[Int], b: Promise[Int], tag: Int): Int
  x := 100 + (await a)
  println "t${tag}a"
  y := await b
  println "t${tag}b"
  x + y
end

async def sum2(a: Promise[Int], b: Promise[Int], tag: Int): Int
  s := (await a) + (await b) * 2
  println "t${tag}a"
  println "t${tag}b"
  s
end

def add3(a: Int, b: Int, c: Int): Int
  a + b + c
end

async def args3(a: Promise[Int], b: Promise[Int], tag: Int): Int
  y := await a
  println "t${tag}a"
  z := add3(7, y, await b)
  println "t${tag}b"
  z
end

async def chain(a: Promise[Int], tag: Int): Int
  v := await a
  println "t${tag}"
  v + 1
end

async def guard(a: Promise[Int], tag: Int): Int
  do
    v := await a
    println "g${tag}ok"
    v * 3
  catch Int() as e
    println "g${tag}err${e}"
    0 - e
  end
end

`

type promProgram struct {
	Src      string   `json:"src"`
	Expect   []string `json:"expect"`   // sorted output lines that must appear exactly once
	Optional []string `json:"optional"` // lines of tasks nobody waits for: at most once
	N        int      `json:"n"`        // bound on task-queue enqueues
	Nodes    int      `json:"nodes"`
}

type pgnode struct {
	val    pval
	tokens []string
	deps   []int
	needed bool
}

// genPromProgram builds a promise DAG program and its expected output.
func genPromProgram(r *Rand, maxNodes int, allowSlow bool) promProgram {
	if r.Chance(0.012) {
		return genMarathonProgram(r)
	}
	var b strings.Builder
	b.WriteString(promPrelude)
	var expect []string
	var graph []*pgnode
	nThreads := r.Intn(3) // go threads besides main
	nMain := r.Range(3, maxNodes)
	tag := 0
	awaits := 0
	nodes := 0
	type pv struct {
		name string
		id   int
	}
	emitDAG := func(sb *strings.Builder, prefix string, indent string, vis []pv, count int) []pv {
		for i := 0; i < count; i++ {
			tag++
			name := fmt.Sprintf("%s%d", prefix, len(vis))
			g := &pgnode{}
			kinds := []string{"leaf", "leaf", "spin", "boom", "resolved"}
			if allowSlow {
				kinds = append(kinds, "slow", "slow")
			}
			if len(vis) >= 1 {
				kinds = append(kinds, "chain", "chain", "guard", "guard")
			}
			if len(vis) >= 2 {
				kinds = append(kinds, "join", "join", "join", "join")
			}
			nodes++
			switch k := Pick(r, kinds); k {
			case "leaf":
				n := r.Range(0, 50)
				fmt.Fprintf(sb, "%s%s := leaf(%d)\n", indent, name, n)
				g.val = pval{v: n*2 + 1}
			case "resolved":
				// a promise that is settled before anybody can await it
				n := r.Range(0, 50)
				fmt.Fprintf(sb, "%s%s := Promise.resolved(%d)\n", indent, name, n)
				g.val = pval{v: n}
			case "slow":
				n := r.Range(0, 50)
				ms := Pick(r, []int{1, 2, 5, 50, 3000})
				fmt.Fprintf(sb, "%s%s := slow(%d, %d)\n", indent, name, n, ms)
				g.val = pval{v: n + 7}
				awaits++
				nodes++ // the external timeout promise
			case "boom":
				n := r.Range(1, 50)
				fmt.Fprintf(sb, "%s%s := boom(%d)\n", indent, name, n)
				g.val = pval{err: true, v: n}
			case "spin":
				n := r.Range(0, 20)
				k := r.Range(0, 30)
				fmt.Fprintf(sb, "%s%s := spin(%d, %d)\n", indent, name, n, k)
				g.val = pval{v: n + k*(k-1)/2}
			case "chain":
				a := vis[r.Intn(len(vis))]
				av := graph[a.id].val
				fmt.Fprintf(sb, "%s%s := chain(%s, %d)\n", indent, name, a.name, tag)
				awaits++
				g.deps = []int{a.id}
				if av.err {
					g.val = av
				} else {
					g.tokens = append(g.tokens, fmt.Sprintf("t%d", tag))
					g.val = pval{v: av.v + 1}
				}
			case "guard":
				a := vis[r.Intn(len(vis))]
				av := graph[a.id].val
				fmt.Fprintf(sb, "%s%s := guard(%s, %d)\n", indent, name, a.name, tag)
				awaits++
				g.deps = []int{a.id}
				if av.err {
					g.tokens = append(g.tokens, fmt.Sprintf("g%derr%d", tag, av.v))
					g.val = pval{v: -av.v}
				} else {
					g.tokens = append(g.tokens, fmt.Sprintf("g%dok", tag))
					g.val = pval{v: av.v * 3}
				}
			case "join":
				a := vis[r.Intn(len(vis))]
				c := vis[r.Intn(len(vis))]
				av, cv := graph[a.id].val, graph[c.id].val
				// the two awaits sit at different operand-stack depths in mix / sum2 / args3
				form := Pick(r, []string{"join2", "join2", "mix", "sum2", "args3"})
				fmt.Fprintf(sb, "%s%s := %s(%s, %s, %d)\n", indent, name, form, a.name, c.name, tag)
				awaits += 2
				g.deps = []int{a.id}
				switch {
				case av.err:
					g.val = av
				case cv.err:
					g.deps = append(g.deps, c.id)
					if form != "sum2" { // sum2 awaits both before it prints anything
						g.tokens = append(g.tokens, fmt.Sprintf("t%da", tag))
					}
					g.val = cv
				default:
					g.deps = append(g.deps, c.id)
					g.tokens = append(g.tokens, fmt.Sprintf("t%da", tag), fmt.Sprintf("t%db", tag))
					switch form {
					case "mix":
						g.val = pval{v: 100 + av.v + cv.v}
					case "sum2":
						g.val = pval{v: av.v + 2*cv.v}
					case "args3":
						g.val = pval{v: 7 + av.v + cv.v}
					default:
						g.val = pval{v: av.v + cv.v}
					}
				}
			}
			graph = append(graph, g)
			vis = append(vis, pv{name, len(graph) - 1})
		}
		return vis
	}
	var need func(id int)
	need = func(id int) {
		if graph[id].needed {
			return
		}
		graph[id].needed = true
		for _, d := range graph[id].deps {
			need(d)
		}
	}
	emitSinks := func(sb *strings.Builder, label string, indent string, vis []pv, own int) {
		// await a random subset (at least one) of the visible promises, in random order
		idx := r.Intn(len(vis))
		order := []int{idx}
		for i := len(vis) - own; i < len(vis); i++ {
			if i != idx && r.Chance(0.6) {
				order = append(order, i)
			}
		}
		for i := len(order) - 1; i > 0; i-- {
			j := r.Intn(i + 1)
			order[i], order[j] = order[j], order[i]
		}
		if len(vis) >= 2 && r.Chance(0.3) {
			// Promise.wait over two or three of the visible promises (a natively settled promise:
			// a goroutine awaits them in order and rejects with the first error it meets)
			nw := r.Range(2, 3)
			var names []string
			res := "ok"
			for k := 0; k < nw; k++ {
				w := vis[r.Intn(len(vis))]
				names = append(names, w.name)
				if res == "ok" {
					need(w.id)
					if wv := graph[w.id].val; wv.err {
						res = fmt.Sprintf("err%d", wv.v)
					}
				}
			}
			awaits++
			nodes++
			fmt.Fprintf(sb, "%sdo\n%s  await Promise.wait(%s)\n%s  println \"%swait=ok\"\n%scatch Int() as e\n%s  println \"%swait=err${e}\"\n%send\n",
				indent, indent, strings.Join(names, ", "), indent, label, indent, indent, label, indent)
			expect = append(expect, fmt.Sprintf("%swait=%s", label, res))
		}
		for _, i := range order {
			p := vis[i]
			pvl := graph[p.id].val
			need(p.id)
			awaits++
			fmt.Fprintf(sb, "%sdo\n%s  println \"%s%d=${await %s}\"\n%scatch Int() as e\n%s  println \"%s%d=err${e}\"\n%send\n",
				indent, indent, label, i, p.name, indent, indent, label, i, indent)
			if pvl.err {
				expect = append(expect, fmt.Sprintf("%s%d=err%d", label, i, pvl.v))
			} else {
				expect = append(expect, fmt.Sprintf("%s%d=%d", label, i, pvl.v))
			}
		}
	}
	// main DAG first (so that thread functions can take main's promises)
	var mainSB strings.Builder
	visMain := emitDAG(&mainSB, "p", "", nil, nMain)
	var defs strings.Builder
	var spawn strings.Builder
	if nThreads > 0 {
		fmt.Fprintf(&spawn, "wg := WaitGroup(%d)\n", nThreads)
	}
	for th := 1; th <= nThreads; th++ {
		a := visMain[r.Intn(len(visMain))]
		c := visMain[r.Intn(len(visMain))]
		fmt.Fprintf(&defs, "def worker%d(a: Promise[Int], b: Promise[Int], wg: WaitGroup)\n", th)
		vis := []pv{{"a", a.id}, {"b", c.id}}
		own := r.Range(1, 4)
		vis = emitDAG(&defs, fmt.Sprintf("q%d_", th), "  ", vis, own)
		emitSinks(&defs, fmt.Sprintf("w%dr", th), "  ", vis, own+2)
		fmt.Fprintf(&defs, "  wg.end\nend\n\n")
		fmt.Fprintf(&spawn, "go worker%d(%s, %s, wg)\n", th, a.name, c.name)
	}
	b.WriteString(defs.String())
	b.WriteString(mainSB.String())
	b.WriteString(spawn.String())
	emitSinks(&b, "r", "", visMain, len(visMain))
	if nThreads > 0 {
		b.WriteString("wg.wait\n")
	}
	b.WriteString("println \"end\"\n")
	expect = append(expect, "end")
	var optional []string
	for _, g := range graph {
		if g.needed {
			expect = append(expect, g.tokens...)
		} else {
			optional = append(optional, g.tokens...)
		}
	}
	sort.Strings(expect)
	sort.Strings(optional)
	return promProgram{Src: b.String(), Expect: expect, Optional: optional, N: nodes + awaits + 4, Nodes: nodes}
}

// genMarathonProgram: one task that suspends in await more than a thousand
// times (per-suspension bookkeeping of the worker threads - value stack, call
// frames, continuation lists - must not accumulate), next to a few short ones.
func genMarathonProgram(r *Rand) promProgram {
	if r.Chance(0.5) {
		// fan-in: many tasks that make no call of their own suspend on one timer promise,
		// round after round, so every worker sees thousands of suspensions in a row
		w := Pick(r, []int{60, 150})
		rounds := 4800 / w
		var b strings.Builder
		b.WriteString(promPrelude)
		b.WriteString("async def waiter(p: Promise[void], n: Int): Int\n  await p\n  n\nend\n\n")
		fmt.Fprintf(&b, "fr := 0\ntotal := 0\nwhile fr < %d\n  ft := timeout(%d.milliseconds)\n  var fps: List[Promise[Int]] = []\n  fi := 0\n  while fi < %d\n    fps << waiter(ft, fi)\n    fi = fi + 1\n  end\n  for fp in fps\n    total = total + (await fp)\n  end\n  fr = fr + 1\nend\nprintln \"m=${total}\"\nprintln \"end\"\n",
			rounds, Pick(r, []int{1, 5, 40}), w)
		expect := []string{"end", fmt.Sprintf("m=%d", rounds*w*(w-1)/2)}
		sort.Strings(expect)
		return promProgram{Src: b.String(), Expect: expect, N: 2*w + 8, Nodes: rounds*w + rounds}
	}
	rounds := Pick(r, []int{1040, 1300, 2100})
	var b strings.Builder
	b.WriteString(promPrelude)
	b.WriteString("async def tick(n: Int): Int\n  n + 1\nend\n\n")
	form := Pick(r, []string{"acc = acc + (await tick(i))", "v := await tick(i)\n    acc = acc + v", "p := tick(i)\n    acc = acc + 1 + (await p) - 1"})
	b.WriteString("async def marathon(rounds: Int): Int\n  i := 0\n  acc := 0\n  while i < rounds\n    " + form + "\n    i = i + 1\n  end\n  acc\nend\n\n")
	expect := []string{"end", fmt.Sprintf("m=%d", rounds*(rounds+1)/2)}
	side := r.Intn(3)
	for i := 0; i < side; i++ {
		fmt.Fprintf(&b, "s%d := leaf(%d)\n", i, i)
	}
	b.WriteString(fmt.Sprintf("pm := marathon(%d)\n", rounds))
	for i := 0; i < side; i++ {
		fmt.Fprintf(&b, "println \"s%d=${await s%d}\"\n", i, i)
		expect = append(expect, fmt.Sprintf("s%d=%d", i, i*2+1))
	}
	b.WriteString("println \"m=${await pm}\"\nprintln \"end\"\n")
	sort.Strings(expect)
	return promProgram{Src: b.String(), Expect: expect, N: 2*rounds + 2*side + 8, Nodes: rounds + side + 1}
}

type promParams struct {
	Prog  promProgram `json:"prog"`
	Pool  int         `json:"pool"`
	Queue int         `json:"queue"`
}

var queueSendRe = regexp.MustCompile(`blocked@vm/(thread_pool|promise)\.go:\d+:send`)

// judgeProm turns the outcome of a promise program into a verdict for property prop.
func judgeProm(prop string, p *promParams, oc *ElkOutcome) *Verdict {
	v := &Verdict{Verdict: "ok", Property: prop, Exec: 1, Res: &oc.Res}
	res := oc.Res
	switch res.Outcome {
	case "ok":
	case "gopanic":
		v.Verdict, v.Class, v.Sig = "violation", "gopanic", "gopanic"
		v.Detail = fmt.Sprintf("Go panic escaped while running the program (pool %d, queue %d): %s\n%s\n--- program:\n%s", p.Pool, p.Queue, res.PanicVal, trimStack(res.PanicStack), p.Prog.Src)
		return v
	case "deadlock":
		saturated := oc.QueueCap > 0 && oc.QueueLen == oc.QueueCap && queueSendRe.MatchString(res.State) && p.Queue < p.Prog.N
		v.Verdict, v.Class = "violation", "deadlock"
		if saturated {
			v.Sig = "deadlock/queue-saturated"
		} else {
			v.Sig = "deadlock/other"
		}
		v.Detail = fmt.Sprintf("program whose async tasks all terminate deadlocked (pool %d, queue %d/%d used, enqueue bound N=%d)\nstate: %s\noutput so far:\n%s\n--- program:\n%s", p.Pool, oc.QueueLen, oc.QueueCap, p.Prog.N, res.State, oc.Out, p.Prog.Src)
		return v
	case "steplimit":
		v.Verdict, v.Class, v.Sig = "violation", "steplimit", "steplimit"
		v.Detail = fmt.Sprintf("program did not terminate within the step limit (pool %d, queue %d)\nstate: %s\n--- program:\n%s", p.Pool, p.Queue, res.State, p.Prog.Src)
		return v
	default:
		v.Verdict, v.Class, v.Detail = "harness_error", res.Outcome, res.PanicVal
		return v
	}
	if res.TokenViolations > 0 {
		v.Verdict, v.Class, v.Detail = "harness_error", "token", res.FirstViolation
		return v
	}
	if oc.Err != "" {
		v.Verdict, v.Class, v.Sig = "violation", "uncaught", "uncaught"
		v.Detail = fmt.Sprintf("main thread ended with uncaught error %s (pool %d, queue %d)\noutput:\n%s\n--- program:\n%s", oc.Err, p.Pool, p.Queue, oc.Out, p.Prog.Src)
		return v
	}
	got := sortedLines(oc.Out)
	if p.Prog.Expect == nil {
		return v // structurally reduced program: no reference output
	}
	opt := map[string]int{}
	for _, o := range p.Prog.Optional {
		opt[o]++
	}
	var must []string
	for _, g := range got {
		if opt[g] > 0 {
			opt[g]--
			continue
		}
		must = append(must, g)
	}
	if d := diffMultiset(p.Prog.Expect, must); d != "" {
		v.Verdict, v.Class, v.Sig = "violation", "tokens", "tokens"
		v.Detail = fmt.Sprintf("output differs from the reference evaluator (every token exactly once): %s (pool %d, queue %d)\noutput:\n%s\n--- program:\n%s", d, p.Pool, p.Queue, oc.Out, p.Prog.Src)
		return v
	}
	return v
}

// ---------------------------------------------------------------- C16 engine

type c16Engine struct{}

func init() { register(&c16Engine{}) }

func (*c16Engine) Name() string     { return "C16" }
func (*c16Engine) Property() string { return "C16" }

func (*c16Engine) Generate(seed uint64, tier string) *Case {
	r := NewRand(seed)
	maxNodes := 8
	if tier == "thorough" {
		maxNodes = 12
	}
	prog := genPromProgram(r, maxNodes, true)
	p := promParams{Prog: prog, Pool: r.Range(1, 4)}
	switch k := r.Intn(10); {
	case k < 1:
		p.Queue = 1
	case k < 2:
		p.Queue = 2
	case k < 3:
		p.Queue = 3
	case k < 7:
		p.Queue = prog.N
	default:
		p.Queue = 4 * prog.N
	}
	b, _ := json.Marshal(&p)
	sc := drawSched(r, 3000)
	sc.MaxTicks = 3_000_000
	if prog.Nodes > 500 {
		sc.MaxTicks = 40_000_000 // marathon programs
	}
	return &Case{Params: b, Sched: sc}
}

func (*c16Engine) Execute(t *testing.T, c *Case) *Verdict {
	var p promParams
	if err := json.Unmarshal(c.Params, &p); err != nil {
		return &Verdict{Verdict: "harness_error", Detail: err.Error()}
	}
	resetElk()
	chunk, diags, failed, panicked := compileElk(p.Prog.Src, false)
	if panicked != "" {
		return &Verdict{Verdict: "harness_error", Class: "compile_panic", Detail: panicked + "\n" + p.Prog.Src}
	}
	if failed {
		return &Verdict{Verdict: "harness_error", Class: "workload_rejected", Detail: diags + "\n" + p.Prog.Src}
	}
	oc := runElk(t, c.Sched, chunk, elkRunOpts{Pool: p.Pool, Queue: p.Queue})
	v := judgeProm("C16", &p, &oc)
	v.Hash = hashStrings(p.Prog.Src, fmt.Sprint(p.Pool, p.Queue), hashDecisions(oc.Res.Decisions))
	v.Nontrivial = oc.Res.Switches >= 3 && oc.Res.Tasks >= 3
	v.Extra = map[string]int64{
		fmt.Sprintf("pool_%d", p.Pool): 1,
		"queue_lt_N":                   b2i(p.Queue < p.Prog.N),
		"promises":                     int64(p.Prog.Nodes),
	}
	v.Sample = map[string]any{"pool": p.Pool, "queue": p.Queue, "switches": oc.Res.Switches, "ticks": oc.Res.Ticks, "tasks": oc.Res.Tasks, "fake_ms": oc.Res.FakeNs / 1e6, "output": oc.Out}
	return v
}

func b2i(b bool) int64 {
	if b {
		return 1
	}
	return 0
}

func (*c16Engine) Shrink(c *Case) []*Case {
	var p promParams
	if json.Unmarshal(c.Params, &p) != nil {
		return nil
	}
	var out []*Case
	mk := func(q promParams) {
		b, _ := json.Marshal(&q)
		cc := *c
		cc.Params = b
		out = append(out, &cc)
	}
	if p.Pool > 1 {
		q := p
		q.Pool--
		mk(q)
	}
	// drop one top-level statement line (promise creation or a whole sink block)
	for _, src := range dropLineCandidates(p.Prog.Src) {
		q := p
		q.Prog.Src = src
		q.Prog.Expect = nil // structural reductions are only valid for oracles that do not need Expect
		mk(q)
	}
	return out
}

// dropLineCandidates proposes smaller programs by deleting one top-level
// "do ... end" sink block.
func dropLineCandidates(src string) []string {
	lines := strings.Split(src, "\n")
	var out []string
	for i := 0; i < len(lines); i++ {
		if lines[i] == "do" {
			j := i
			for j < len(lines) && lines[j] != "end" {
				j++
			}
			if j < len(lines) {
				cand := append(append([]string{}, lines[:i]...), lines[j+1:]...)
				out = append(out, strings.Join(cand, "\n"))
			}
		}
	}
	return out
}

package harness

import (
	"context"
	"encoding/json"
	"fmt"
	"sort"
	"strconv"
	"strings"
	"sync"
	"testing"
	"time"

	"github.com/anishathalye/porcupine"
	"github.com/elk-language/elk/value"
)

// E-SYNC: channels and synchronisation primitives (property C25).
// Family "api": client tasks drive value.ChannelOfValue / Mutex / RWMutex /
// WaitGroup through their Go methods; channel histories go to porcupine.
// Family "elk": generated Elk programs with printed tokens as observations.

type chanOp struct {
	Kind string `json:"k"` // push pushctx pop popctx next close
	Val  int    `json:"v,omitempty"`
}

type syncParams struct {
	Family string `json:"family"` // api-chan api-mutex api-rwmutex api-wg elk
	// api-chan
	Cap     int        `json:"cap,omitempty"`
	Clients [][]chanOp `json:"clients,omitempty"`
	CloseAt int        `json:"close_at,omitempty"` // main yields this many times, then closes and cancels
	// NoClose: every client operation takes the context and the peer only cancels it; nothing
	// ever closes the channel, so the cancel is all that can release a blocked client
	NoClose bool `json:"no_close,omitempty"`
	// api-mutex / rwmutex / wg
	Threads int   `json:"threads,omitempty"`
	Iters   int   `json:"iters,omitempty"`
	Writers []int `json:"writers,omitempty"`
	Rounds  [][]int `json:"rounds,omitempty"`
	// elk
	Scenario string   `json:"scenario,omitempty"`
	Src      string   `json:"src,omitempty"`
	Expect   []string `json:"expect,omitempty"` // exact multiset, when the scenario has one
	Meta     []int    `json:"meta,omitempty"`
	Pool     int      `json:"pool,omitempty"`
}

type c25Engine struct{}

func init() { register(&c25Engine{}) }

func (*c25Engine) Name() string     { return "C25" }
func (*c25Engine) Property() string { return "C25" }

func (*c25Engine) Generate(seed uint64, tier string) *Case {
	r := NewRand(seed)
	var p syncParams
	switch k := r.Intn(24); {
	case k < 6:
		p.Family = "api-chan"
		p.Cap = r.Intn(4)
		p.NoClose = r.Chance(0.3)
		nc := r.Range(2, 5)
		next := 1
		for c := 0; c < nc; c++ {
			var ops []chanOp
			n := r.Range(1, 5)
			role := r.Intn(3) // 0 producer, 1 consumer, 2 mixed
			for i := 0; i < n; i++ {
				x := r.Intn(10)
				switch {
				case role == 0 && x < 8, role == 2 && x < 4:
					kind := Pick(r, []string{"push", "pushctx"})
					ops = append(ops, chanOp{Kind: kind, Val: next})
					next++
				case x == 9 && r.Chance(0.3):
					ops = append(ops, chanOp{Kind: "close"})
				default:
					ops = append(ops, chanOp{Kind: Pick(r, []string{"pop", "popctx", "next", "popctx"})})
				}
			}
			p.Clients = append(p.Clients, ops)
		}
		p.CloseAt = r.Range(0, 40)
		if p.NoClose {
			for _, ops := range p.Clients {
				for i := range ops {
					switch ops[i].Kind {
					case "push":
						ops[i].Kind = "pushctx"
					case "pop", "next", "close":
						ops[i].Kind = "popctx"
					}
				}
			}
		}
	case k < 8:
		p.Family = "api-mutex"
		p.Threads = r.Range(2, 4)
		p.Iters = r.Range(1, 4)
	case k < 10:
		p.Family = "api-rwmutex"
		p.Threads = r.Range(2, 5)
		p.Iters = r.Range(1, 3)
		for i := 0; i < p.Threads; i++ {
			p.Writers = append(p.Writers, r.Intn(2))
		}
	case k < 13 && k >= 11:
		// lock / unlock sequences with misuse (stray and double unlocks) under contention
		p.Family = "api-lockops"
		p.Scenario = Pick(r, []string{"mutex", "rwmutex", "rwmutex"})
		nc := r.Range(2, 4)
		for c := 0; c < nc; c++ {
			var ops []chanOp
			n := r.Range(1, 3)
			for i := 0; i < n; i++ {
				write := p.Scenario == "mutex" || r.Chance(0.4)
				lk, ul := "rlock", "runlock"
				if write {
					lk, ul = "lock", "unlock"
				}
				switch x := r.Intn(10); {
				case x < 5: // balanced pair
					ops = append(ops, chanOp{Kind: lk}, chanOp{Kind: "yield", Val: r.Intn(3)}, chanOp{Kind: ul})
				case x < 7: // double unlock
					ops = append(ops, chanOp{Kind: lk}, chanOp{Kind: ul}, chanOp{Kind: ul})
				default: // stray unlock of something this client does not hold
					ops = append(ops, chanOp{Kind: "yield", Val: r.Intn(4)}, chanOp{Kind: ul})
				}
			}
			p.Clients = append(p.Clients, ops)
		}
	case k < 11, k >= 22:
		p.Family = "api-wg"
		p.Threads = r.Range(1, 4)
		p.Iters = r.Range(1, 3)
		// the group is used for several rounds; a waiter either waits for good (-1) or with a
		// context that the main task cancels after that many of its steps (99: never)
		for round, n := 0, r.Range(1, 3); round < n; round++ {
			var ws []int
			for w, m := 0, r.Range(1, 3); w < m; w++ {
				ws = append(ws, Pick(r, []int{-1, 99, r.Intn(4), r.Intn(8)}))
			}
			p.Rounds = append(p.Rounds, ws)
		}
	default:
		p.Family = "elk"
		genSyncProgram(r, &p)
		p.Pool = r.Range(1, 2)
	}
	b, _ := json.Marshal(&p)
	sc := drawSched(r, 2000)
	sc.MaxTicks = 3_000_000
	if strings.HasPrefix(p.Family, "api") && sc.Strategy == "random" {
		sc.MeanGap = Pick(r, []int{1, 2, 3, 5, 8})
	}
	return &Case{Params: b, Sched: sc}
}

// ---------------------------------------------------------------- api family

type chIn struct {
	Kind string
	Val  int
}
type chOut struct {
	Res string // ok closed aborted stop value
	Val int
}

// model state: "c|" or "o|" followed by comma separated queued values
var chanModel = porcupine.Model{
	Init: func() interface{} { return "o|" },
	Step: func(state, input, output interface{}) (bool, interface{}) {
		st := state.(string)
		closed := st[0] == 'c'
		var q []string
		if len(st) > 2 {
			q = strings.Split(st[2:], ",")
		}
		mk := func(closed bool, q []string) string {
			p := "o|"
			if closed {
				p = "c|"
			}
			return p + strings.Join(q, ",")
		}
		in := input.(chIn)
		out := output.(chOut)
		switch in.Kind {
		case "push", "pushctx":
			switch out.Res {
			case "ok":
				if closed {
					return false, state
				}
				return true, mk(closed, append(append([]string{}, q...), strconv.Itoa(in.Val)))
			case "closed":
				return closed, state
			case "aborted":
				return in.Kind == "pushctx", state
			}
		case "pop", "popctx", "next":
			switch out.Res {
			case "value":
				if len(q) == 0 || q[0] != strconv.Itoa(out.Val) {
					return false, state
				}
				return true, mk(closed, q[1:])
			case "closed", "stop":
				return closed && len(q) == 0, state
			case "aborted":
				return in.Kind == "popctx", state
			}
		case "close":
			switch out.Res {
			case "ok":
				if closed {
					return false, state
				}
				return true, mk(true, q)
			case "closed":
				return closed, state
			}
		}
		return false, state
	},
	Equal: func(a, b interface{}) bool { return a.(string) == b.(string) },
}

// model state of a (RW)Mutex: write-held flag and number of read holds
type lockState struct {
	W bool
	R int
}

var lockModel = porcupine.Model{
	Init: func() interface{} { return lockState{} },
	Step: func(state, input, output interface{}) (bool, interface{}) {
		st := state.(lockState)
		in := input.(chIn)
		out := output.(chOut)
		switch in.Kind {
		case "lock":
			if st.W || st.R != 0 {
				return false, state
			}
			return out.Res == "ok", lockState{W: true}
		case "rlock":
			if st.W {
				return false, state
			}
			return out.Res == "ok", lockState{R: st.R + 1}
		case "unlock":
			if st.W {
				return out.Res == "ok", lockState{R: st.R}
			}
			return out.Res == "unlocked", state
		case "runlock":
			if st.R > 0 {
				return out.Res == "ok", lockState{W: st.W, R: st.R - 1}
			}
			return out.Res == "unlocked", state
		}
		return false, state
	},
	Equal: func(a, b interface{}) bool { return a.(lockState) == b.(lockState) },
}

func classifyLockErr(err value.Value) string {
	if err.IsUndefined() {
		return "ok"
	}
	if c := err.Class(); c == value.MutexUnlockedErrorClass || c == value.RWMutexUnlockedErrorClass {
		return "unlocked"
	}
	return "other:" + err.Inspect()
}

func classifyChanErr(err value.Value) string {
	if err.IsUndefined() {
		return "ok"
	}
	s := err.Inspect()
	switch {
	case strings.Contains(s, "ExecutionAborted") || strings.Contains(s, "aborted"):
		return "aborted"
	case strings.Contains(s, "stop_iteration"):
		return "stop"
	case strings.Contains(s, "closed"):
		return "closed"
	}
	return "other:" + s
}

func (e *c25Engine) runAPI(t *testing.T, c *Case, p *syncParams) *Verdict {
	var mu sync.Mutex
	var ops []porcupine.Operation
	var seq int64
	var violation string
	fail := func(format string, a ...any) {
		mu.Lock()
		if violation == "" {
			violation = fmt.Sprintf(format, a...)
		}
		mu.Unlock()
	}
	res := Simulate(t, c.Sched, SimOpts{}, func(env *Env) {
		var wg sync.WaitGroup
		switch p.Family {
		case "api-chan":
			ch := value.NewChannelOfValue(p.Cap)
			ctx, cancel := context.WithCancel(context.Background())
			defer cancel()
			for ci, cops := range p.Clients {
				wg.Add(1)
				ci, cops := ci, cops
				env.Go(func() {
					defer wg.Done()
					for _, op := range cops {
						seq++
						call := seq
						var out chOut
						switch op.Kind {
						case "push":
							out.Res = classifyChanErr(ch.Push(value.SmallInt(op.Val).ToValue()))
						case "pushctx":
							out.Res = classifyChanErr(ch.PushCtx(ctx, value.SmallInt(op.Val).ToValue()))
						case "pop":
							v, err := ch.Pop()
							out.Res = classifyChanErr(err)
							if err.IsUndefined() {
								out.Res, out.Val = "value", int(v.AsSmallInt())
							}
						case "popctx":
							v, err := ch.PopCtx(ctx)
							out.Res = classifyChanErr(err)
							if err.IsUndefined() {
								out.Res, out.Val = "value", int(v.AsSmallInt())
							}
						case "next":
							v, err := ch.NextValue()
							out.Res = classifyChanErr(err)
							if err.IsUndefined() {
								out.Res, out.Val = "value", int(v.AsSmallInt())
							}
						case "close":
							out.Res = classifyChanErr(ch.Close())
						}
						seq++
						ret := seq
						if strings.HasPrefix(out.Res, "other:") {
							fail("channel operation %s returned unexpected error %s", op.Kind, out.Res)
						}
						mu.Lock()
						ops = append(ops, porcupine.Operation{ClientId: ci, Input: chIn{op.Kind, op.Val}, Call: call, Output: out, Return: ret})
						mu.Unlock()
					}
				})
			}
			for i := 0; i < p.CloseAt; i++ {
				env.Yield()
			}
			// peer close at an arbitrary instant, then cancellation: releases every blocked client
			if !p.NoClose {
				seq++
				call := seq
				r := classifyChanErr(ch.Close())
				seq++
				mu.Lock()
				ops = append(ops, porcupine.Operation{ClientId: 99, Input: chIn{"close", 0}, Call: call, Output: chOut{Res: r}, Return: seq})
				mu.Unlock()
				for i := 0; i < 5; i++ {
					env.Yield()
				}
			}
			cancel()
			env.Wait(&wg)
		case "api-lockops":
			var mx *value.Mutex
			var rw *value.RWMutex
			if p.Scenario == "mutex" {
				mx = value.NewMutex()
			} else {
				rw = value.NewRWMutex()
			}
			for ci, cops := range p.Clients {
				wg.Add(1)
				ci, cops := ci, cops
				env.Go(func() {
					defer wg.Done()
					for _, op := range cops {
						if op.Kind == "yield" {
							for i := 0; i < op.Val; i++ {
								env.Yield()
							}
							continue
						}
						seq++
						call := seq
						var out chOut
						switch {
						case op.Kind == "lock" && mx != nil:
							mx.Lock()
							out.Res = "ok"
						case op.Kind == "unlock" && mx != nil:
							out.Res = classifyLockErr(mx.Unlock())
						case op.Kind == "lock":
							rw.Lock()
							out.Res = "ok"
						case op.Kind == "unlock":
							out.Res = classifyLockErr(rw.Unlock())
						case op.Kind == "rlock":
							rw.ReadLock()
							out.Res = "ok"
						case op.Kind == "runlock":
							out.Res = classifyLockErr(rw.ReadUnlock())
						}
						seq++
						ret := seq
						if strings.HasPrefix(out.Res, "other:") {
							fail("%s on a %s returned an unexpected error %s", op.Kind, p.Scenario, out.Res)
						}
						mu.Lock()
						ops = append(ops, porcupine.Operation{ClientId: ci, Input: chIn{op.Kind, 0}, Call: call, Output: out, Return: ret})
						mu.Unlock()
					}
				})
			}
			env.Wait(&wg)
		case "api-mutex":
			m := value.NewMutex()
			inside := 0
			total := 0
			for i := 0; i < p.Threads; i++ {
				wg.Add(1)
				env.Go(func() {
					defer wg.Done()
					for k := 0; k < p.Iters; k++ {
						m.Lock()
						inside++
						if inside != 1 {
							fail("mutual exclusion violated: %d tasks inside the Mutex critical section", inside)
						}
						t := total
						env.Yield()
						env.Yield()
						total = t + 1
						inside--
						if err := m.Unlock(); !err.IsUndefined() {
							fail("unlock of a held Mutex returned %s", err.Inspect())
						}
					}
				})
			}
			env.Wait(&wg)
			if total != p.Threads*p.Iters {
				fail("lost update under Mutex: counter %d, want %d", total, p.Threads*p.Iters)
			}
		case "api-rwmutex":
			m := value.NewRWMutex()
			readers, writers := 0, 0
			a, b := 0, 0
			for i := 0; i < p.Threads; i++ {
				wg.Add(1)
				isWriter := p.Writers[i] == 1
				env.Go(func() {
					defer wg.Done()
					for k := 0; k < p.Iters; k++ {
						if isWriter {
							m.Lock()
							writers++
							if writers != 1 || readers != 0 {
								fail("RWMutex: writer inside with %d writers and %d readers", writers, readers)
							}
							a++
							env.Yield()
							b++
							writers--
							if err := m.Unlock(); !err.IsUndefined() {
								fail("unlock of a write-held RWMutex returned %s", err.Inspect())
							}
						} else {
							m.ReadLock()
							readers++
							if writers != 0 {
								fail("RWMutex: reader inside together with a writer")
							}
							x := a
							env.Yield()
							if x != b {
								fail("RWMutex: reader saw a torn update (a=%d b=%d)", x, b)
							}
							readers--
							if err := m.ReadUnlock(); !err.IsUndefined() {
								fail("read_unlock of a read-held RWMutex returned %s", err.Inspect())
							}
						}
					}
				})
			}
			env.Wait(&wg)
		case "api-wg":
			w := &value.WaitGroup{}
			rounds := p.Rounds
			if len(rounds) == 0 {
				rounds = [][]int{{-1, -1}}
			}
			n := p.Threads * p.Iters
			for round, waiters := range rounds {
				done := 0
				w.Add(n)
				var rwg sync.WaitGroup
				for i := 0; i < p.Threads; i++ {
					rwg.Add(1)
					env.Go(func() {
						defer rwg.Done()
						for k := 0; k < p.Iters; k++ {
							env.Yield()
							done++
							w.End()
						}
					})
				}
				cancels := make([]context.CancelFunc, len(waiters))
				cancelled := make([]bool, len(waiters))
				for wi, mode := range waiters {
					ctx, cancel := context.WithCancel(context.Background())
					cancels[wi] = cancel
					rwg.Add(1)
					env.Go(func() {
						defer rwg.Done()
						err := value.Undefined
						if mode < 0 {
							w.Wait()
						} else {
							err = w.WaitCtx(ctx)
						}
						switch {
						case err.IsUndefined():
							if done != n {
								fail("round %d: WaitGroup#wait returned after %d of %d end calls", round+1, done, n)
							}
						case !value.IsExecutionAborted(err):
							fail("round %d: WaitGroup#wait returned an unexpected error %s", round+1, err.Inspect())
						case !cancelled[wi]:
							fail("round %d: WaitGroup#wait was aborted although its context is live", round+1)
						}
					})
				}
				for step := 0; step < 8; step++ {
					for wi, mode := range waiters {
						if mode == step {
							cancelled[wi] = true
							cancels[wi]()
						}
					}
					env.Yield()
				}
				env.Wait(&rwg)
				for _, cancel := range cancels {
					cancel()
				}
			}
		}
	})
	v := &Verdict{Verdict: "ok", Property: "C25", Exec: 1, Res: &res}
	v.Hash = hashStrings(string(c.Params), hashDecisions(res.Decisions))
	v.Nontrivial = res.Switches >= 2
	v.Extra = map[string]int64{"family_" + p.Family: 1, "ops": int64(len(ops)), "chan_cancel_only": b2i(p.NoClose)}
	switch res.Outcome {
	case "ok":
	case "gopanic":
		v.Verdict, v.Class, v.Sig = "violation", "gopanic", "gopanic"
		v.Detail = fmt.Sprintf("Go panic in %s workload: %s\n%s", p.Family, res.PanicVal, trimStack(res.PanicStack))
		return v
	case "harness_panic":
		v.Verdict, v.Class, v.Detail = "harness_error", "harness_panic", res.PanicVal
		return v
	default:
		v.Verdict, v.Class, v.Sig = "violation", res.Outcome, res.Outcome+"/"+p.Family
		v.Detail = fmt.Sprintf("%s workload did not finish (%s) although every blocked operation is released by the final close and cancel; state: %s", p.Family, res.Outcome, res.State)
		return v
	}
	if res.TokenViolations > 0 {
		v.Verdict, v.Class, v.Detail = "harness_error", "token", res.FirstViolation
		return v
	}
	if violation != "" {
		v.Verdict, v.Class, v.Sig, v.Detail = "violation", "contract", "contract/"+p.Family, violation
		return v
	}
	if p.Family == "api-lockops" {
		sort.SliceStable(ops, func(i, j int) bool { return ops[i].Call < ops[j].Call })
		switch porcupine.CheckOperationsTimeout(lockModel, ops, 20*time.Second) {
		case porcupine.Illegal:
			v.Verdict, v.Class, v.Sig = "violation", "nonlinearizable", "nonlinearizable/"+p.Scenario
			v.Detail = fmt.Sprintf("%s history is not linearizable w.r.t. a lock with a write flag and a reader count in which an unlock of a lock that is not held returns UnlockedError:\n%s", p.Scenario, describeOps(ops))
		case porcupine.Unknown:
			v.Verdict, v.Class = "inconclusive", "porcupine_timeout"
		}
		v.Sample = map[string]any{"lock": p.Scenario, "history": describeOps(ops), "switches": res.Switches}
	}
	if p.Family == "api-chan" {
		sort.SliceStable(ops, func(i, j int) bool { return ops[i].Call < ops[j].Call })
		switch porcupine.CheckOperationsTimeout(chanModel, ops, 20*time.Second) {
		case porcupine.Illegal:
			v.Verdict, v.Class, v.Sig = "violation", "nonlinearizable", "nonlinearizable/chan"
			v.Detail = fmt.Sprintf("channel history (capacity %d) is not linearizable w.r.t. a FIFO queue with a closed flag:\n%s", p.Cap, describeOps(ops))
		case porcupine.Unknown:
			v.Verdict, v.Class = "inconclusive", "porcupine_timeout"
		}
		v.Sample = map[string]any{"cap": p.Cap, "history": describeOps(ops), "switches": res.Switches}
	}
	return v
}

// ---------------------------------------------------------------- elk family

const syncPrelude = `using Std::Sync::{Mutex, RWMutex, WaitGroup, Once}

`

func genSyncProgram(r *Rand, p *syncParams) {
	var b strings.Builder
	b.WriteString(syncPrelude)
	switch k := r.Intn(12); {
	case k < 3:
		p.Scenario = "prodcons"
		np, nc := r.Range(1, 3), r.Range(1, 3)
		count := r.Range(1, 4)
		capc := r.Intn(4)
		mode := r.Intn(3) // how consumers read
		fmt.Fprintf(&b, `def producer(ch: Channel[Int], base: Int, count: Int, wg: WaitGroup)
  i := 0
  while i < count
    ch << base + i
    i = i + 1
  end
  wg.end
end

`)
		switch mode {
		case 0:
			b.WriteString(`def consumer(ch: Channel[Int], id: Int, done: WaitGroup)
  for v in ch
    println "c${id}:${v}"
  end
  done.end
end

`)
		case 1:
			b.WriteString(`def consumer(ch: Channel[Int], id: Int, done: WaitGroup)
  loop
    r := <<ch
    break unless r.ok
    println "c${id}:${r.unwrap}"
  end
  done.end
end

`)
		default:
			b.WriteString(`def consumer(ch: Channel[Int], id: Int, done: WaitGroup)
  do
    loop
      v := ch.pop
      println "c${id}:${v}"
    end
  catch Channel::ClosedError() as e
    println "c${id}:closed"
  end
  done.end
end

`)
		}
		fmt.Fprintf(&b, "ch := Channel::[Int](%d)\npwg := WaitGroup(%d)\ncwg := WaitGroup(%d)\n", capc, np, nc)
		for i := 1; i <= np; i++ {
			fmt.Fprintf(&b, "go producer(ch, %d, %d, pwg)\n", i*1000, count)
		}
		for i := 1; i <= nc; i++ {
			fmt.Fprintf(&b, "go consumer(ch, %d, cwg)\n", i)
		}
		b.WriteString("pwg.wait\nch.close\ncwg.wait\nprintln \"end\"\n")
		p.Meta = []int{np, nc, count, mode}
	case k < 5:
		p.Scenario = "counter"
		nt, iters := r.Range(2, 4), r.Range(1, 5)
		useRW := r.Bool()
		b.WriteString(`class Box
  attr n: Int, a: Int, b: Int, m: Mutex, rw: RWMutex
  init
    @n = 0
    @a = 0
    @b = 0
    @m = Mutex()
    @rw = RWMutex()
  end
end

`)
		if useRW {
			b.WriteString(`def worker(box: Box, k: Int, wg: WaitGroup)
  i := 0
  while i < k
    box.rw.lock
    t := box.n
    box.a = box.a + 1
    box.n = t + 1
    box.b = box.b + 1
    box.rw.unlock
    i = i + 1
  end
  wg.end
end

def reader(box: Box, k: Int, wg: WaitGroup)
  i := 0
  while i < k
    box.rw.read_lock
    x := box.a
    y := box.b
    println "torn" if x != y
    box.rw.read_unlock
    i = i + 1
  end
  wg.end
end

`)
		} else {
			b.WriteString(`def worker(box: Box, k: Int, wg: WaitGroup)
  i := 0
  while i < k
    box.m.lock
    t := box.n
    box.a = box.a + 1
    box.n = t + 1
    box.b = box.b + 1
    box.m.unlock
    i = i + 1
  end
  wg.end
end

def reader(box: Box, k: Int, wg: WaitGroup)
  i := 0
  while i < k
    box.m.lock
    x := box.a
    y := box.b
    println "torn" if x != y
    box.m.unlock
    i = i + 1
  end
  wg.end
end

`)
		}
		nr := r.Intn(3)
		fmt.Fprintf(&b, "box := Box()\nwg := WaitGroup(%d)\n", nt+nr)
		for i := 0; i < nt; i++ {
			fmt.Fprintf(&b, "go worker(box, %d, wg)\n", iters)
		}
		for i := 0; i < nr; i++ {
			fmt.Fprintf(&b, "go reader(box, %d, wg)\n", iters)
		}
		fmt.Fprintf(&b, "wg.wait\nprintln \"n=${box.n}\"\n")
		p.Expect = []string{fmt.Sprintf("n=%d", nt*iters)}
	case k < 7:
		p.Scenario = "select"
		count := r.Range(1, 4)
		capc := r.Intn(3)
		b.WriteString(`def producer(ch: Channel[Int], base: Int, count: Int)
  i := 0
  while i < count
    ch << base + i
    i = i + 1
  end
end

`)
		fmt.Fprintf(&b, "cha := Channel::[Int](%d)\nchb := Channel::[Int](%d)\n", capc, r.Intn(3))
		fmt.Fprintf(&b, "go producer(cha, 1000, %d)\ngo producer(chb, 2000, %d)\n", count, count)
		fmt.Fprintf(&b, "i := 0\nwhile i < %d\n  select\n  case v := <<cha\n    println \"a:${v.unwrap}\"\n  case v := <<chb\n    println \"b:${v.unwrap}\"\n  end\n  i = i + 1\nend\n", 2*count)
		// nothing is ready any more: else must be taken
		b.WriteString("select\ncase v := <<cha\n  println \"a:late\"\ncase v := <<chb\n  println \"b:late\"\nelse\n  println \"none\"\nend\n")
		// send select on a full / non-full channel
		b.WriteString("chc := Channel::[Int](1)\nselect\ncase chc << 5\n  println \"sent\"\nelse\n  println \"full\"\nend\nselect\ncase chc << 6\n  println \"sent2\"\nelse\n  println \"full2\"\nend\nprintln \"c=${try chc.pop}\"\n")
		for i := 0; i < count; i++ {
			p.Expect = append(p.Expect, fmt.Sprintf("a:%d", 1000+i), fmt.Sprintf("b:%d", 2000+i))
		}
		p.Expect = append(p.Expect, "none", "sent", "full2", "c=5")
	case k < 8:
		p.Scenario = "once"
		nt := r.Range(2, 4)
		work := Pick(r, []int{0, 3, 20, 80})
		if r.Chance(0.5) {
			// Once#call from several threads: the body does some work and prints "once" when it is
			// done; nobody may get past the call before that
			fmt.Fprintf(&b, "def caller(o: Once, id: Int, wg: WaitGroup)\n  o.call() ->\n    k := 0\n    while k < %d\n      k = k + 1\n    end\n    println \"once\"\n  end\n  println \"after${id}\"\n  wg.end\nend\n\n", work)
			fmt.Fprintf(&b, "o := Once()\nwg := WaitGroup(%d)\n", nt)
			for i := 1; i <= nt; i++ {
				fmt.Fprintf(&b, "go caller(o, %d, wg)\n", i)
				p.Expect = append(p.Expect, fmt.Sprintf("after%d", i))
			}
		} else {
			// Once.memo: every caller gets the memoized value, also one that arrives while the body runs
			fmt.Fprintf(&b, "om := Once.memo ->\n  k := 0\n  while k < %d\n    k = k + 1\n  end\n  println \"once\"\n  42 + k\nend\nwg := WaitGroup(%d)\n", work, nt)
			for i := 1; i <= nt; i++ {
				fmt.Fprintf(&b, "go\n  println \"after%d=${om()}\"\n  wg.end\nend\n", i)
				p.Expect = append(p.Expect, fmt.Sprintf("after%d=%d", i, 42+work))
			}
		}
		b.WriteString("wg.wait\nprintln \"end\"\n")
		p.Expect = append(p.Expect, "once", "end")
	case k < 9:
		p.Scenario = "waitgroup"
		nt := r.Range(1, 4)
		b.WriteString(`def worker(id: Int, k: Int, wg: WaitGroup)
  i := 0
  while i < k
    i = i + 1
  end
  println "w${id}"
  wg.end
end

`)
		fmt.Fprintf(&b, "wg := WaitGroup()\nwg.add(%d)\n", nt)
		for i := 1; i <= nt; i++ {
			fmt.Fprintf(&b, "go worker(%d, %d, wg)\n", i, r.Intn(20))
			p.Expect = append(p.Expect, fmt.Sprintf("w%d", i))
		}
		b.WriteString("wg.wait\nprintln \"all\"\n")
		p.Expect = append(p.Expect, "all")
	case k < 10 && r.Chance(0.35):
		// several threads run the same select expression at the same time, each over its own
		// pair of pre-filled, closed channels: nobody may see a value of another thread, per
		// channel order is preserved and every value arrives
		p.Scenario = "selectmany"
		nt := r.Range(2, 4)
		cnt := r.Range(1, 4)
		b.WriteString(`def drain(a: Channel[Int], b: Channel[Int], id: Int, wg: WaitGroup)
  got := 0
  foreign := 0
  disorder := 0
  lasta := 0 - 1
  lastb := 0 - 1
  more := true
  while more
    select
    case r := <<a
      if r.ok
        v := r.unwrap
        got = got + 1
        foreign = foreign + 1 if v / 1000 != id
        disorder = disorder + 1 if v <= lasta
        lasta = v
      else
        more = false
      end
    case r := <<b
      if r.ok
        v := r.unwrap
        got = got + 1
        foreign = foreign + 1 if v / 1000 != id
        disorder = disorder + 1 if v <= lastb
        lastb = v
      else
        more = false
      end
    end
  end
  for v in a
    got = got + 1
    foreign = foreign + 1 if v / 1000 != id
    disorder = disorder + 1 if v <= lasta
    lasta = v
  end
  for v in b
    got = got + 1
    foreign = foreign + 1 if v / 1000 != id
    disorder = disorder + 1 if v <= lastb
    lastb = v
  end
  println "d${id}=${got}:${foreign}:${disorder}"
  wg.end
end

`)
		fmt.Fprintf(&b, "wg := WaitGroup(%d)\n", nt)
		for i := 1; i <= nt; i++ {
			fmt.Fprintf(&b, "ca%d := Channel::[Int](%d)\ncb%d := Channel::[Int](%d)\n", i, cnt, i, cnt)
			for j := 0; j < cnt; j++ {
				fmt.Fprintf(&b, "ca%d << %d\ncb%d << %d\n", i, i*1000+j, i, i*1000+500+j)
			}
			fmt.Fprintf(&b, "ca%d.close\ncb%d.close\n", i, i)
		}
		for i := 1; i <= nt; i++ {
			fmt.Fprintf(&b, "go drain(ca%d, cb%d, %d, wg)\n", i, i, i)
			p.Expect = append(p.Expect, fmt.Sprintf("d%d=%d:0:0", i, 2*cnt))
		}
		b.WriteString("wg.wait\nprintln \"end\"\n")
		p.Expect = append(p.Expect, "end")
	case k < 10 && r.Chance(0.5):
		// one thread starts a wait group while others end it as eagerly as they can: an end at
		// zero raises an error (caught, retried a bounded number of times); the counter moves
		// around zero under every interleaving of start and end
		p.Scenario = "wgrace"
		enders := r.Range(1, 3)
		n := r.Range(1, 4)
		b.WriteString("def starter(wg: WaitGroup, n: Int, done: WaitGroup)\n  i := 0\n  while i < n\n    wg.start\n    i = i + 1\n  end\n  done.end\nend\n\n")
		b.WriteString("def ender(wg: WaitGroup, n: Int, done: WaitGroup)\n  ended := 0\n  tries := 0\n  while ended < n && tries < 60\n    tries = tries + 1\n    do\n      wg.end\n      ended = ended + 1\n    catch Error() as e\n      ended = ended + 0\n    end\n  end\n  done.end\nend\n\n")
		fmt.Fprintf(&b, "wg := WaitGroup()\ndone := WaitGroup(%d)\ngo starter(wg, %d, done)\n", enders+1, enders*n)
		for i := 0; i < enders; i++ {
			fmt.Fprintf(&b, "go ender(wg, %d, done)\n", n)
		}
		b.WriteString("done.wait\nprintln \"end\"\n")
		p.Expect = []string{"end"}
	case k < 10:
		// a channel is closed by a peer while (or before) the main thread sits in a select
		// with a send case on it: a closed channel rejects the push with an error, the
		// select must not crash and must not report the value as sent
		p.Scenario = "selectclose"
		spin := Pick(r, []int{0, 1, 5, 40, 300})
		capc := r.Intn(2)
		b.WriteString("def closer(ch: Channel[Int], n: Int)\n  i := 0\n  while i < n\n    i = i + 1\n  end\n  ch.close\nend\n\n")
		fmt.Fprintf(&b, "chs := Channel::[Int](%d)\nchr := Channel::[Int](0)\n", capc)
		if capc == 1 {
			b.WriteString("chs << 1\n") // full: the send case cannot proceed until the close
		}
		closedBefore := r.Chance(0.3)
		if closedBefore {
			b.WriteString("chs.close\n")
		} else {
			fmt.Fprintf(&b, "go closer(chs, %d)\n", spin)
		}
		// (no select-with-else inside a loop: every evaluation of `select ... else` leaks two
		// stack slots, a sequential defect listed in DESIGN.md 7.3; an else branch is only used
		// when the channel is already closed, where the send case is ready and must be taken)
		b.WriteString("do\n  select\n  case chs << 7\n    println \"sent\"\n  case v := <<chr\n    println \"recv\"\n")
		if closedBefore && r.Chance(0.5) {
			b.WriteString("  else\n    println \"else\"\n")
		}
		b.WriteString("  end\n  println \"selected\"\ncatch Channel::ClosedError() as e\n  println \"closed-error\"\nend\nprintln \"end\"\n")
		p.Expect = []string{"closed-error", "end"}
	default:
		p.Scenario = "misuse"
		steps := []string{"munlock", "rwunlock", "rwrunlock", "dclose", "pushclosed", "popclosed", "crossunlock", "lockunlock", "rlock2", "closedsingleton", "popdrain"}
		n := r.Range(2, 6)
		b.WriteString("m := Mutex()\nrw := RWMutex()\n")
		for i := 0; i < n; i++ {
			s := Pick(r, steps)
			id := fmt.Sprintf("%d", i)
			switch s {
			case "munlock":
				fmt.Fprintf(&b, "do\n  Mutex().unlock\n  println \"%s:munlock:none\"\ncatch Error() as e\n  println \"%s:munlock:${e.class.name}\"\nend\n", id, id)
				p.Expect = append(p.Expect, id+":munlock:Std::Sync::Mutex::UnlockedError")
			case "rwunlock":
				fmt.Fprintf(&b, "do\n  RWMutex().unlock\n  println \"%s:rwunlock:none\"\ncatch Error() as e\n  println \"%s:rwunlock:${e.class.name}\"\nend\n", id, id)
				p.Expect = append(p.Expect, id+":rwunlock:Std::Sync::RWMutex::UnlockedError")
			case "rwrunlock":
				fmt.Fprintf(&b, "do\n  RWMutex().read_unlock\n  println \"%s:rwrunlock:none\"\ncatch Error() as e\n  println \"%s:rwrunlock:${e.class.name}\"\nend\n", id, id)
				p.Expect = append(p.Expect, id+":rwrunlock:Std::Sync::RWMutex::UnlockedError")
			case "dclose":
				fmt.Fprintf(&b, "dc%s := Channel::[Int](1)\ndc%s.close\ndo\n  dc%s.close\n  println \"%s:dclose:none\"\ncatch Channel::ClosedError() as e\n  println \"%s:dclose:err\"\nend\n", id, id, id, id, id)
				p.Expect = append(p.Expect, id+":dclose:err")
			case "pushclosed":
				fmt.Fprintf(&b, "pc%s := Channel::[Int](1)\npc%s.close\ndo\n  pc%s.push(1)\n  println \"%s:pushclosed:none\"\ncatch Channel::ClosedError() as e\n  println \"%s:pushclosed:err\"\nend\n", id, id, id, id, id)
				p.Expect = append(p.Expect, id+":pushclosed:err")
			case "popclosed":
				fmt.Fprintf(&b, "qc%s := Channel::[Int](1)\nqc%s.close\ndo\n  qc%s.pop\n  println \"%s:popclosed:none\"\ncatch Channel::ClosedError() as e\n  println \"%s:popclosed:err\"\nend\n", id, id, id, id, id)
				p.Expect = append(p.Expect, id+":popclosed:err")
			case "popdrain":
				fmt.Fprintf(&b, "rc%s := Channel::[Int](2)\nrc%s << 4\nrc%s << 9\nrc%s.close\nprintln \"%s:drain:${try rc%s.pop}\"\nprintln \"%s:drain:${try rc%s.pop}\"\ndo\n  rc%s.pop\n  println \"%s:drain:none\"\ncatch Channel::ClosedError() as e\n  println \"%s:drain:err\"\nend\n", id, id, id, id, id, id, id, id, id, id, id)
				p.Expect = append(p.Expect, id+":drain:4", id+":drain:9", id+":drain:err")
			case "crossunlock":
				fmt.Fprintf(&b, "cm%s := Mutex()\ncw%s := WaitGroup(1)\ncm%s.lock\ngo do\n  cm%s.unlock\n  cw%s.end\nend\ncw%s.wait\ncm%s.lock\ncm%s.unlock\nprintln \"%s:cross:ok\"\n", id, id, id, id, id, id, id, id, id)
				p.Expect = append(p.Expect, id+":cross:ok")
			case "lockunlock":
				fmt.Fprintf(&b, "m.lock\nm.unlock\ndo\n  m.unlock\n  println \"%s:lu:none\"\ncatch Error() as e\n  println \"%s:lu:${e.class.name}\"\nend\n", id, id)
				p.Expect = append(p.Expect, id+":lu:Std::Sync::Mutex::UnlockedError")
			case "rlock2":
				fmt.Fprintf(&b, "rw.read_lock\nrw.read_lock\nrw.read_unlock\nrw.read_unlock\ndo\n  rw.read_unlock\n  println \"%s:rl:none\"\ncatch Error() as e\n  println \"%s:rl:${e.class.name}\"\nend\nrw.lock\nrw.unlock\n", id, id)
				p.Expect = append(p.Expect, id+":rl:Std::Sync::RWMutex::UnlockedError")
			case "closedsingleton":
				fmt.Fprintf(&b, "sc%s := Channel.closed::[Int]()\ndo\n  sc%s.pop\n  println \"%s:cs:none\"\ncatch Channel::ClosedError() as e\n  println \"%s:cs:err\"\nend\n", id, id, id, id)
				p.Expect = append(p.Expect, id+":cs:err")
			}
		}
		b.WriteString("println \"end\"\n")
		p.Expect = append(p.Expect, "end")
	}
	p.Src = b.String()
	sort.Strings(p.Expect)
}

func (e *c25Engine) runElk(t *testing.T, c *Case, p *syncParams) *Verdict {
	resetElk()
	chunk, diags, failed, panicked := compileElk(p.Src, false)
	if panicked != "" {
		return &Verdict{Verdict: "harness_error", Class: "compile_panic", Detail: panicked + "\n" + p.Src}
	}
	if failed {
		return &Verdict{Verdict: "harness_error", Class: "workload_rejected", Detail: diags + "\n" + p.Src}
	}
	oc := runElk(t, c.Sched, chunk, elkRunOpts{Pool: p.Pool, Queue: 64})
	pp := &promParams{Prog: promProgram{Src: p.Src, N: 0}, Pool: p.Pool, Queue: 64}
	if p.Scenario != "prodcons" {
		pp.Prog.Expect = p.Expect
		if pp.Prog.Expect == nil {
			pp.Prog.Expect = []string{}
		}
	}
	v := judgeProm("C25", pp, &oc)
	if v.Verdict == "violation" {
		v.Sig = v.Class + "/" + p.Scenario
	}
	v.Hash = hashStrings(p.Src, hashDecisions(oc.Res.Decisions))
	v.Nontrivial = oc.Res.Switches >= 2 || p.Scenario == "misuse"
	v.Extra = map[string]int64{"family_elk_" + p.Scenario: 1}
	v.Sample = map[string]any{"scenario": p.Scenario, "output": oc.Out, "switches": oc.Res.Switches}
	if v.Verdict != "ok" {
		return v
	}
	lines := strings.Split(strings.TrimRight(oc.Out, "\n"), "\n")
	bad := func(format string, a ...any) *Verdict {
		v.Verdict, v.Class, v.Sig = "violation", "contract", "contract/"+p.Scenario
		v.Detail = fmt.Sprintf(format, a...) + "\noutput:\n" + oc.Out + "\n--- program:\n" + p.Src
		return v
	}
	switch p.Scenario {
	case "prodcons":
		np, nc, count, mode := p.Meta[0], p.Meta[1], p.Meta[2], p.Meta[3]
		seen := map[int]int{}
		last := map[string]int{}
		closedSeen := 0
		for _, l := range lines {
			if l == "end" {
				continue
			}
			parts := strings.SplitN(l, ":", 2)
			if len(parts) != 2 || !strings.HasPrefix(parts[0], "c") {
				return bad("unexpected output line %q", l)
			}
			if parts[1] == "closed" {
				closedSeen++
				continue
			}
			val, err := strconv.Atoi(parts[1])
			if err != nil {
				return bad("unexpected output line %q", l)
			}
			seen[val]++
			key := parts[0] + "/" + strconv.Itoa(val/1000)
			if prev, ok := last[key]; ok && prev >= val {
				return bad("consumer %s received %d after %d: push order of one producer not preserved", parts[0], val, prev)
			}
			last[key] = val
		}
		for pi := 1; pi <= np; pi++ {
			for i := 0; i < count; i++ {
				if seen[pi*1000+i] != 1 {
					return bad("value %d delivered %d times, want exactly once", pi*1000+i, seen[pi*1000+i])
				}
			}
		}
		if len(seen) != np*count {
			return bad("%d distinct values delivered, %d pushed", len(seen), np*count)
		}
		if mode == 2 && closedSeen != nc {
			return bad("%d consumers saw the closed error, want %d", closedSeen, nc)
		}
		if len(lines) == 0 || lines[len(lines)-1] != "end" {
			return bad("program did not reach its end")
		}
	case "once":
		onceAt := -1
		for i, l := range lines {
			if l == "once" {
				onceAt = i
			}
		}
		for i, l := range lines {
			if strings.HasPrefix(l, "after") && i < onceAt {
				return bad("a caller of Once#call returned before the body had run")
			}
		}
	case "waitgroup":
		if lines[len(lines)-1] != "all" {
			return bad("WaitGroup#wait returned before every worker had called end")
		}
	}
	return v
}

func (e *c25Engine) Execute(t *testing.T, c *Case) *Verdict {
	var p syncParams
	if err := json.Unmarshal(c.Params, &p); err != nil {
		return &Verdict{Verdict: "harness_error", Detail: err.Error()}
	}
	if p.Family == "elk" {
		return e.runElk(t, c, &p)
	}
	return e.runAPI(t, c, &p)
}

func (e *c25Engine) Shrink(c *Case) []*Case {
	var p syncParams
	if json.Unmarshal(c.Params, &p) != nil {
		return nil
	}
	var out []*Case
	mk := func(q syncParams) {
		b, _ := json.Marshal(&q)
		cc := *c
		cc.Params = b
		out = append(out, &cc)
	}
	if p.Family == "api-chan" || p.Family == "api-lockops" {
		if len(p.Clients) > 1 {
			for i := range p.Clients {
				q := p
				q.Clients = append(append([][]chanOp{}, p.Clients[:i]...), p.Clients[i+1:]...)
				mk(q)
			}
		}
		for i := range p.Clients {
			for k := range p.Clients[i] {
				q := p
				q.Clients = append([][]chanOp{}, p.Clients...)
				q.Clients[i] = append(append([]chanOp{}, p.Clients[i][:k]...), p.Clients[i][k+1:]...)
				mk(q)
			}
		}
	}
	if p.Threads > 2 {
		q := p
		q.Threads--
		if len(q.Writers) > q.Threads {
			q.Writers = q.Writers[:q.Threads]
		}
		mk(q)
	}
	if p.Iters > 1 {
		q := p
		q.Iters--
		mk(q)
	}
	return out
}

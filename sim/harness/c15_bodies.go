package harness

import (
	"encoding/json"
	"fmt"
	"math/big"
	"sort"
	"strings"
	"testing"
)

// E-BODY: the same generated function body wrapped as a plain function, a
// generator and an async function (property C15). The reference evaluator
// below shares no code with elk.

type bexpr struct {
	Op   string // lit var add sub mul call closure
	Lit  int64
	Var  string
	L, R *bexpr
	Fn   string
}

type bstmt struct {
	Kind  string // let assign if while retif throwif trycall yield closure
	Var   string
	E     *bexpr
	Cond  *bcond
	Then  []*bstmt
	Else  []*bstmt
	Count int
	Fn    string
	Form  string // while loops: "" increment last | "top" increment first | "forin" for over a range
}

type bcond struct {
	Op  string // lt gt eq ne
	L   *bexpr
	Lit int64
}

type bbody struct {
	Stmts []*bstmt
	Final *bexpr
}

type ctrl struct {
	ret, thr *big.Int
}

type benv struct {
	vars    map[string]*big.Int
	yields  []*big.Int
	helpers map[string]func(*big.Int) (*big.Int, *big.Int) // value, thrown
	steps   int
}

func (e *bexpr) src() string {
	switch e.Op {
	case "lit":
		if e.Lit < 0 {
			return fmt.Sprintf("(0 - %d)", -e.Lit)
		}
		return fmt.Sprint(e.Lit)
	case "var":
		return e.Var
	case "add":
		return "(" + e.L.src() + " + " + e.R.src() + ")"
	case "sub":
		return "(" + e.L.src() + " - " + e.R.src() + ")"
	case "mul":
		return "(" + e.L.src() + " * " + e.R.src() + ")"
	case "call":
		switch emitAwaitCalls {
		case 1:
			// async variant: the helper runs as its own task and is awaited in place, so the body
			// suspends with whatever operands the surrounding expression has already pushed
			return "(await a" + e.Fn + "(" + e.L.src() + "))"
		case 2:
			// async variant: the helper is called through a closure of the body that awaits a
			// pending timer promise first (an await in a closure waits in place, the task does
			// not suspend there)
			return "c" + e.Fn + ".(" + e.L.src() + ")"
		}
		return e.Fn + "(" + e.L.src() + ")"
	}
	return "0"
}

// emitAwaitCalls switches the emitters to the awaiting form of helper calls
// (case generation is sequential, so a package variable is enough).
var emitAwaitCalls int

// closures of the async variant in mode 2; they capture nothing
const bodyClosures = `  ch1 := |q: Int|: Int -> do
    await timeout(1.millisecond)
    h1(q)
  end
  ch2 := |q: Int|: Int -> do
    await timeout(2.millisecond)
    h2(q)
  end
  ch3 := |q: Int|: Int -> do
    await timeout(1.millisecond)
    h3(q)
  end
`

func (c *bcond) src() string {
	op := map[string]string{"lt": "<", "gt": ">", "eq": "==", "ne": "!="}[c.Op]
	return fmt.Sprintf("%s %s %d", c.L.src(), op, c.Lit)
}

func (e *bexpr) eval(env *benv) (*big.Int, *big.Int) {
	switch e.Op {
	case "lit":
		return big.NewInt(e.Lit), nil
	case "var":
		return new(big.Int).Set(env.vars[e.Var]), nil
	case "add", "sub", "mul":
		l, t := e.L.eval(env)
		if t != nil {
			return nil, t
		}
		r, t := e.R.eval(env)
		if t != nil {
			return nil, t
		}
		switch e.Op {
		case "add":
			return l.Add(l, r), nil
		case "sub":
			return l.Sub(l, r), nil
		default:
			return l.Mul(l, r), nil
		}
	case "call":
		a, t := e.L.eval(env)
		if t != nil {
			return nil, t
		}
		return env.helpers[e.Fn](a)
	}
	return big.NewInt(0), nil
}

func (c *bcond) eval(env *benv) (bool, *big.Int) {
	l, t := c.L.eval(env)
	if t != nil {
		return false, t
	}
	k := l.Cmp(big.NewInt(c.Lit))
	switch c.Op {
	case "lt":
		return k < 0, nil
	case "gt":
		return k > 0, nil
	case "eq":
		return k == 0, nil
	default:
		return k != 0, nil
	}
}

func execStmts(stmts []*bstmt, env *benv) ctrl {
	for _, s := range stmts {
		switch s.Kind {
		case "let", "assign":
			v, t := s.E.eval(env)
			if t != nil {
				return ctrl{thr: t}
			}
			env.vars[s.Var] = v
		case "if":
			c, t := s.Cond.eval(env)
			if t != nil {
				return ctrl{thr: t}
			}
			var r ctrl
			if c {
				r = execStmts(s.Then, env)
			} else {
				r = execStmts(s.Else, env)
			}
			if r.ret != nil || r.thr != nil {
				return r
			}
		case "while":
			env.vars[s.Var] = big.NewInt(0)
			for env.vars[s.Var].Cmp(big.NewInt(int64(s.Count))) < 0 {
				r := execStmts(s.Then, env)
				if r.ret != nil || r.thr != nil {
					return r
				}
				env.vars[s.Var] = new(big.Int).Add(env.vars[s.Var], big.NewInt(1))
			}
		case "retif":
			c, t := s.Cond.eval(env)
			if t != nil {
				return ctrl{thr: t}
			}
			if c {
				v, t := s.E.eval(env)
				if t != nil {
					return ctrl{thr: t}
				}
				return ctrl{ret: v}
			}
		case "throwif":
			c, t := s.Cond.eval(env)
			if t != nil {
				return ctrl{thr: t}
			}
			if c {
				v, t := s.E.eval(env)
				if t != nil {
					return ctrl{thr: t}
				}
				return ctrl{thr: v}
			}
		case "trycall":
			v, t := s.E.eval(env)
			if t != nil {
				env.vars[s.Var] = new(big.Int).Add(t, big.NewInt(1000))
			} else {
				env.vars[s.Var] = v
			}
		case "yield":
			v, t := s.E.eval(env)
			if t != nil {
				return ctrl{thr: t}
			}
			env.yields = append(env.yields, v)
		case "dofinally":
			// the finally block runs exactly once on every way out of the body
			r := execStmts(s.Then, env)
			env.vars[s.Var] = new(big.Int).Add(env.vars[s.Var], big.NewInt(1))
			if r.ret != nil || r.thr != nil {
				return r
			}
		}
	}
	return ctrl{}
}

func emitStmts(b *strings.Builder, stmts []*bstmt, ind string, yieldMode string) {
	for _, s := range stmts {
		switch s.Kind {
		case "let":
			fmt.Fprintf(b, "%s%s := %s\n", ind, s.Var, s.E.src())
		case "assign":
			fmt.Fprintf(b, "%s%s = %s\n", ind, s.Var, s.E.src())
		case "if":
			fmt.Fprintf(b, "%sif %s\n", ind, s.Cond.src())
			emitStmts(b, s.Then, ind+"  ", yieldMode)
			if len(s.Else) > 0 {
				fmt.Fprintf(b, "%selse\n", ind)
				emitStmts(b, s.Else, ind+"  ", yieldMode)
			}
			fmt.Fprintf(b, "%send\n", ind)
		case "while":
			switch s.Form {
			case "top":
				// the increment comes first, so the last statement of the body may be anything (a yield, an if ...)
				fmt.Fprintf(b, "%s%s = 0 - 1\n%swhile %s < %s\n%s  %s = %s + 1\n", ind, s.Var, ind, s.Var, (&bexpr{Op: "lit", Lit: int64(s.Count - 1)}).src(), ind, s.Var, s.Var)
				emitStmts(b, s.Then, ind+"  ", yieldMode)
				fmt.Fprintf(b, "%send\n%s%s = %s + 1\n", ind, ind, s.Var, s.Var)
			case "forin":
				fmt.Fprintf(b, "%s%s = 0\n%sfor f%s in 0..<%d\n%s  %s = f%s\n", ind, s.Var, ind, s.Var, s.Count, ind, s.Var, s.Var)
				emitStmts(b, s.Then, ind+"  ", yieldMode)
				fmt.Fprintf(b, "%send\n%s%s = %d\n", ind, ind, s.Var, s.Count)
			default:
				fmt.Fprintf(b, "%s%s = 0\n%swhile %s < %d\n", ind, s.Var, ind, s.Var, s.Count)
				emitStmts(b, s.Then, ind+"  ", yieldMode)
				fmt.Fprintf(b, "%s  %s = %s + 1\n%send\n", ind, s.Var, s.Var, ind)
			}
		case "retif":
			fmt.Fprintf(b, "%sreturn %s if %s\n", ind, s.E.src(), s.Cond.src())
		case "throwif":
			fmt.Fprintf(b, "%sthrow unchecked %s if %s\n", ind, s.E.src(), s.Cond.src())
		case "trycall":
			fmt.Fprintf(b, "%sdo\n%s  %s = %s\n%scatch Int() as e\n%s  %s = e + 1000\n%send\n", ind, ind, s.Var, s.E.src(), ind, ind, s.Var, ind)
		case "dofinally":
			fmt.Fprintf(b, "%sdo\n", ind)
			emitStmts(b, s.Then, ind+"  ", yieldMode)
			fmt.Fprintf(b, "%sfinally\n%s  %s = %s + 1\n%send\n", ind, ind, s.Var, s.Var, ind)
		case "yield":
			if yieldMode == "list" {
				fmt.Fprintf(b, "%sout << %s\n", ind, s.E.src())
			} else {
				fmt.Fprintf(b, "%syield %s\n", ind, s.E.src())
			}
		}
	}
}

type bodyGen struct {
	r       *Rand
	vars    []string
	loops   int
	nv      int
	yields  bool
	helpers []string
	inLoop  int
}

func (g *bodyGen) expr(depth int) *bexpr {
	if depth <= 0 || g.r.Chance(0.3) {
		if g.r.Chance(0.6) && len(g.vars) > 0 {
			return &bexpr{Op: "var", Var: Pick(g.r, g.vars)}
		}
		return &bexpr{Op: "lit", Lit: int64(g.r.Range(-5, 30))}
	}
	switch k := g.r.Intn(10); {
	case k < 4:
		return &bexpr{Op: "add", L: g.expr(depth - 1), R: g.expr(depth - 1)}
	case k < 6:
		return &bexpr{Op: "sub", L: g.expr(depth - 1), R: g.expr(depth - 1)}
	case k < 7 && g.inLoop == 0:
		return &bexpr{Op: "mul", L: g.expr(depth - 1), R: &bexpr{Op: "lit", Lit: int64(g.r.Range(2, 3))}}
	case k < 9:
		return &bexpr{Op: "call", Fn: Pick(g.r, g.helpers), L: g.expr(depth - 1)}
	default:
		return &bexpr{Op: "add", L: g.expr(depth - 1), R: &bexpr{Op: "lit", Lit: int64(g.r.Range(0, 9))}}
	}
}

func (g *bodyGen) cond() *bcond {
	// the left side always mentions a variable: the checker rejects comparisons of two literals
	l := &bexpr{Op: "var", Var: Pick(g.r, g.vars)}
	if g.r.Chance(0.5) {
		l = &bexpr{Op: Pick(g.r, []string{"add", "sub"}), L: l, R: g.expr(1)}
	} else if g.r.Chance(0.3) {
		l = &bexpr{Op: "call", Fn: Pick(g.r, g.helpers), L: l}
	}
	return &bcond{Op: Pick(g.r, []string{"lt", "gt", "eq", "ne", "gt", "lt"}), L: l, Lit: int64(g.r.Range(-3, 60))}
}

func (g *bodyGen) stmts(n int, depth int) []*bstmt {
	var out []*bstmt
	for i := 0; i < n; i++ {
		switch k := g.r.Intn(20); {
		case k < 5:
			v := fmt.Sprintf("v%d", g.nv)
			g.nv++
			out = append(out, &bstmt{Kind: "let", Var: v, E: g.expr(2)})
			g.vars = append(g.vars, v)
		case k < 9 && len(g.vars) > 1:
			out = append(out, &bstmt{Kind: "assign", Var: Pick(g.r, g.vars[1:]), E: g.expr(2)})
		case k < 12 && depth > 0:
			saved := len(g.vars)
			s := &bstmt{Kind: "if", Cond: g.cond()}
			s.Then = g.stmts(g.r.Range(1, 3), depth-1)
			g.vars = g.vars[:saved]
			if g.r.Bool() {
				s.Else = g.stmts(g.r.Range(1, 2), depth-1)
				g.vars = g.vars[:saved]
			}
			out = append(out, s)
		case k == 12 && depth > 0 && g.r.Chance(0.5):
			// do ... finally around statements that may suspend (yield, awaited helper calls),
			// return early or throw
			fz := fmt.Sprintf("z%d", g.nv)
			g.nv++
			out = append(out, &bstmt{Kind: "let", Var: fz, E: &bexpr{Op: "lit", Lit: 0}})
			saved := len(g.vars)
			body := g.stmts(g.r.Range(1, 3), depth-1)
			g.vars = g.vars[:saved]
			out = append(out, &bstmt{Kind: "dofinally", Var: fz, Then: body})
			g.vars = append(g.vars, fz)
		case k < 14 && depth > 0 && g.loops < 2:
			g.loops++
			iv := fmt.Sprintf("i%d", g.nv)
			g.nv++
			// the loop variable is declared before the loop
			out = append(out, &bstmt{Kind: "let", Var: iv, E: &bexpr{Op: "lit", Lit: 0}})
			saved := len(g.vars)
			g.vars = append(g.vars, iv)
			g.inLoop++
			body := g.stmts(g.r.Range(1, 3), depth-1)
			g.inLoop--
			g.vars = g.vars[:saved]
			// the loop variable must not be assigned inside the body
			for _, b := range body {
				if b.Kind == "assign" && b.Var == iv {
					b.Var = g.vars[len(g.vars)-1]
				}
			}
			out = append(out, &bstmt{Kind: "while", Var: iv, Count: g.r.Range(0, 6), Then: body, Form: Pick(g.r, []string{"", "", "top", "forin"})})
			g.vars = append(g.vars, iv)
		case k < 15:
			out = append(out, &bstmt{Kind: "retif", Cond: g.cond(), E: g.expr(1)})
		case k < 16:
			out = append(out, &bstmt{Kind: "throwif", Cond: g.cond(), E: g.expr(1)})
		case k < 18 && len(g.vars) > 1:
			out = append(out, &bstmt{Kind: "trycall", Var: Pick(g.r, g.vars[1:]), E: &bexpr{Op: "call", Fn: Pick(g.r, g.helpers), L: g.expr(1)}})
		default:
			if g.yields {
				out = append(out, &bstmt{Kind: "yield", E: g.expr(1)})
			} else {
				v := fmt.Sprintf("v%d", g.nv)
				g.nv++
				out = append(out, &bstmt{Kind: "let", Var: v, E: g.expr(1)})
				g.vars = append(g.vars, v)
			}
		}
	}
	return out
}

// the while loop assigns vars declared outside; fix "assign to loop var" cases
func fixAssignTargets(stmts []*bstmt, loopVars map[string]bool, fallback string) {
	for _, s := range stmts {
		if (s.Kind == "assign" || s.Kind == "trycall") && loopVars[s.Var] {
			s.Var = fallback
		}
		if s.Kind == "while" {
			loopVars[s.Var] = true
			fixAssignTargets(s.Then, loopVars, fallback)
			delete(loopVars, s.Var)
		} else {
			fixAssignTargets(s.Then, loopVars, fallback)
			fixAssignTargets(s.Else, loopVars, fallback)
		}
	}
}

const bodyHelpers = `async def ah1(a: Int): Int
  h1(a)
end
async def ah2(a: Int): Int
  h2(a)
end
async def ah3(a: Int): Int
  h3(a)
end
def h1(a: Int): Int
  a * 3 - 1
end
def h2(a: Int): Int
  throw unchecked a if a > 40
  a + 2
end
def h3(a: Int): Int
  b := a + a
  return b if a < 0
  b - 5
end
`

func goHelpers() map[string]func(*big.Int) (*big.Int, *big.Int) {
	return map[string]func(*big.Int) (*big.Int, *big.Int){
		"h1": func(a *big.Int) (*big.Int, *big.Int) {
			v := new(big.Int).Mul(a, big.NewInt(3))
			return v.Sub(v, big.NewInt(1)), nil
		},
		"h2": func(a *big.Int) (*big.Int, *big.Int) {
			if a.Cmp(big.NewInt(40)) > 0 {
				return nil, new(big.Int).Set(a)
			}
			return new(big.Int).Add(a, big.NewInt(2)), nil
		},
		"h3": func(a *big.Int) (*big.Int, *big.Int) {
			b := new(big.Int).Add(a, a)
			if a.Sign() < 0 {
				return b, nil
			}
			return b.Sub(b, big.NewInt(5)), nil
		},
	}
}

type bodyProgram struct {
	Src    string   `json:"src"`
	Expect []string `json:"expect"`
	Bodies int      `json:"bodies"`
	// set for programs of genCaptureProgram
	Capture string `json:"capture,omitempty"`
}

// genBodyProgram emits nBodies bodies, each as plain / generator / async, plus
// yield families with a list twin, and a driver that prints every result.
func genBodyProgram(r *Rand, nBodies int) bodyProgram {
	var b strings.Builder
	b.WriteString(bodyHelpers)
	var driver strings.Builder
	var expect []string
	inputs := []int64{}
	for len(inputs) < 3 {
		x := int64(r.Range(-4, 45))
		dup := false
		for _, y := range inputs {
			dup = dup || x == y
		}
		if !dup {
			inputs = append(inputs, x)
		}
	}
	fmtRes := func(c ctrl, final *big.Int) string {
		switch {
		case c.thr != nil:
			return "err" + c.thr.String()
		case c.ret != nil:
			return c.ret.String()
		default:
			return final.String()
		}
	}
	for k := 0; k < nBodies; k++ {
		yields := r.Chance(0.35)
		g := &bodyGen{r: r, vars: []string{"x"}, helpers: []string{"h1", "h2", "h3"}, yields: yields}
		stmts := g.stmts(r.Range(2, 7), 2)
		fixAssignTargets(stmts, map[string]bool{}, "x")
		final := g.expr(2)
		// "x" is a parameter: assignments to it are fine in Elk? keep a local copy instead
		pre := "  x := x0\n"
		if !yields {
			awaitCalls := Pick(r, []int{0, 0, 1, 1, 1, 2, 2})
			if awaitCalls == 2 && hasStmtKind(stmts, "retif") {
				// the checker rejects a `return` that follows a closure literal in the same body
				// (it is checked against the return type `void`; sequential, see DESIGN.md 7.3)
				awaitCalls = 1
			}
			for _, variant := range []struct{ kw, name string }{{"def", "f"}, {"def *", "g"}, {"async def", "a"}} {
				vpre := pre
				if variant.name == "a" {
					emitAwaitCalls = awaitCalls
					if awaitCalls == 2 {
						vpre += bodyClosures
					}
				}
				fmt.Fprintf(&b, "%s%s%d(x0: Int): Int\n%s", variant.kw, fnSep(variant.kw)+variant.name, k, vpre)
				emitStmts(&b, stmts, "  ", "")
				fmt.Fprintf(&b, "  %s\nend\n", final.src())
				emitAwaitCalls = 0
			}
			for _, x := range inputs {
				env := &benv{vars: map[string]*big.Int{"x": big.NewInt(x)}, helpers: goHelpers()}
				c := execStmts(stmts, env)
				var fv *big.Int
				if c.ret == nil && c.thr == nil {
					var t *big.Int
					fv, t = final.eval(env)
					if t != nil {
						c.thr = t
					}
				}
				res := fmtRes(c, fv)
				for _, v := range []string{"f", "g", "a"} {
					expect = append(expect, fmt.Sprintf("%s%d:%d=%s", v, k, x, res))
				}
				xs := fmt.Sprint(x)
				if x < 0 {
					xs = fmt.Sprintf("(0 - %d)", -x)
				}
				fmt.Fprintf(&driver, "do\n  println \"f%d:%d=${f%d(%s)}\"\ncatch Int() as e\n  println \"f%d:%d=err${e}\"\nend\n", k, x, k, xs, k, x)
				fmt.Fprintf(&driver, "do\n  println \"g%d:%d=${try g%d(%s).next}\"\ncatch Int() as e\n  println \"g%d:%d=err${e}\"\nend\n", k, x, k, xs, k, x)
				fmt.Fprintf(&driver, "pa%d_%d := a%d(%s)\n", k, x+10, k, xs)
			}
			for _, x := range inputs {
				fmt.Fprintf(&driver, "do\n  println \"a%d:%d=${await pa%d_%d}\"\ncatch Int() as e\n  println \"a%d:%d=err${e}\"\nend\n", k, x, k, x+10, k, x)
			}
		} else {
			fmt.Fprintf(&b, "def *y%d(x0: Int): Int\n%s", k, pre)
			emitStmts(&b, stmts, "  ", "")
			fmt.Fprintf(&b, "  %s\nend\n", final.src())
			fmt.Fprintf(&b, "def l%d(x0: Int, out: List[Int]): Int\n%s", k, pre)
			emitStmts(&b, stmts, "  ", "list")
			fmt.Fprintf(&b, "  %s\nend\n", final.src())
			for _, x := range inputs {
				env := &benv{vars: map[string]*big.Int{"x": big.NewInt(x)}, helpers: goHelpers()}
				c := execStmts(stmts, env)
				var fv *big.Int
				if c.ret == nil && c.thr == nil {
					var t *big.Int
					fv, t = final.eval(env)
					if t != nil {
						c.thr = t
					}
				}
				var seq []string
				for _, y := range env.yields {
					seq = append(seq, y.String())
				}
				res := fmtRes(c, fv)
				xs := fmt.Sprint(x)
				if x < 0 {
					xs = fmt.Sprintf("(0 - %d)", -x)
				}
				// generator: iterate with next until stop or error, printing each value
				id := fmt.Sprintf("%d_%d", k, x+10)
				fmt.Fprintf(&driver, "gy%s := y%d(%s)\nny%s := 0\ndo\n  loop\n    vy%s := try gy%s.next\n    println \"y%d:%d:${ny%s}=${vy%s}\"\n    ny%s = ny%s + 1\n  end\ncatch :stop_iteration\n  println \"y%d:%d stop@${ny%s}\"\ncatch Int() as e\n  println \"y%d:%d err${e}@${ny%s}\"\nend\n",
					id, k, xs, id, id, id, k, x, id, id, id, id, k, x, id, k, x, id)
				fmt.Fprintf(&driver, "do\n  gy%s.next\n  println \"y%d:%d again=value\"\ncatch :stop_iteration\n  println \"y%d:%d again=stop\"\ncatch Int() as e\n  println \"y%d:%d again=err${e}\"\nend\n", id, k, x, k, x, k, x)
				// list twin
				fmt.Fprintf(&driver, "var sl%s: List[Int] = []\nvar el%s: Int? = nil\ndo\n  sl%s << l%d(%s, sl%s)\ncatch Int() as e\n  el%s = e\nend\nnl%s := 0\nfor vl%s in sl%s\n  println \"l%d:%d:${nl%s}=${vl%s}\"\n  nl%s = nl%s + 1\nend\nif el%s == nil\n  println \"l%d:%d stop@${nl%s}\"\nelse\n  println \"l%d:%d err${el%s}@${nl%s}\"\nend\n",
					id, id, id, k, xs, id, id, id, id, id, k, x, id, id, id, id, id, k, x, id, k, x, id, id)
				full := append([]string{}, seq...)
				tail := "stop"
				if c.thr != nil {
					tail = "err" + c.thr.String()
				} else {
					full = append(full, res)
				}
				for i, e := range full {
					expect = append(expect, fmt.Sprintf("y%d:%d:%d=%s", k, x, i, e), fmt.Sprintf("l%d:%d:%d=%s", k, x, i, e))
				}
				expect = append(expect, fmt.Sprintf("y%d:%d %s@%d", k, x, tail, len(full)), fmt.Sprintf("l%d:%d %s@%d", k, x, tail, len(full)))
				expect = append(expect, fmt.Sprintf("y%d:%d again=stop", k, x))
			}
		}
	}
	b.WriteString(driver.String())
	b.WriteString("println \"end\"\n")
	expect = append(expect, "end")
	sort.Strings(expect)
	return bodyProgram{Src: b.String(), Expect: expect, Bodies: nBodies}
}

// genCaptureProgram: a closure of the body captures a local that is assigned after a
// suspension of the body (by the closure or by the body) and read afterwards by the other side.
func genCaptureProgram(r *Rand) bodyProgram {
	var b strings.Builder
	b.WriteString(bodyHelpers)
	mutate := Pick(r, []string{"closure", "body"})
	read := Pick(r, []string{"local", "closure"})
	for _, variant := range []struct{ kw, name, call string }{{"def", "f", "h1(x0)"}, {"async def", "a", "(await ah1(x0))"}} {
		fmt.Fprintf(&b, "%s %s0(x0: Int): Int\n  var a = x0\n  g := || -> do\n    a = a + 1\n    a\n  end\n  g.()\n  v := %s\n", variant.kw, variant.name, variant.call)
		if mutate == "closure" {
			b.WriteString("  g.()\n")
		} else {
			b.WriteString("  a = a + 5\n")
		}
		if read == "local" {
			b.WriteString("  a * 7 + v\nend\n")
		} else {
			b.WriteString("  g.() * 7 + v\nend\n")
		}
	}
	var expect []string
	for _, x := range []int64{int64(r.Range(-5, 30)), int64(r.Range(31, 60))} {
		a := x + 1
		v := 3*x - 1
		if mutate == "closure" {
			a++
		} else {
			a += 5
		}
		if read == "closure" {
			a++
		}
		res := a*7 + v
		xs := fmt.Sprint(x)
		if x < 0 {
			xs = fmt.Sprintf("(0 - %d)", -x)
		}
		fmt.Fprintf(&b, "println \"f0:%d=${f0(%s)}\"\nprintln \"a0:%d=${await a0(%s)}\"\n", x, xs, x, xs)
		expect = append(expect, fmt.Sprintf("f0:%d=%d", x, res), fmt.Sprintf("a0:%d=%d", x, res))
	}
	b.WriteString("println \"end\"\n")
	expect = append(expect, "end")
	sort.Strings(expect)
	return bodyProgram{Src: b.String(), Expect: expect, Bodies: 1, Capture: mutate + "/" + read}
}

func hasStmtKind(stmts []*bstmt, kind string) bool {
	for _, s := range stmts {
		if s.Kind == kind || hasStmtKind(s.Then, kind) || hasStmtKind(s.Else, kind) {
			return true
		}
	}
	return false
}

func fnSep(kw string) string {
	if strings.HasSuffix(kw, "*") {
		return ""
	}
	return " "
}

// ---------------------------------------------------------------- C15 engine

type c15Params struct {
	Body  *bodyProgram `json:"body,omitempty"`
	Prom  *promParams  `json:"prom,omitempty"`
	Pool  int          `json:"pool"`
	Queue int          `json:"queue"`
}

type c15Engine struct{}

func init() { register(&c15Engine{}) }

func (*c15Engine) Name() string     { return "C15" }
func (*c15Engine) Property() string { return "C15" }

func (*c15Engine) Generate(seed uint64, tier string) *Case {
	r := NewRand(seed)
	p := c15Params{Pool: r.Range(1, 4)}
	if r.Chance(0.7) {
		n := r.Range(1, 3)
		if tier == "thorough" {
			n = r.Range(1, 5)
		}
		bp := genBodyProgram(r, n)
		if r.Chance(0.04) {
			bp = genCaptureProgram(r)
		}
		p.Body = &bp
		p.Queue = 64 + 16*n
	} else {
		prog := genPromProgram(r, 8, true)
		p.Queue = Pick(r, []int{prog.N, 4 * prog.N})
		p.Prom = &promParams{Prog: prog, Pool: p.Pool, Queue: p.Queue}
	}
	b, _ := json.Marshal(&p)
	sc := drawSched(r, 5000)
	sc.MaxTicks = 5_000_000
	if p.Prom != nil && p.Prom.Prog.Nodes > 500 {
		sc.MaxTicks = 40_000_000 // marathon programs
	}
	return &Case{Params: b, Sched: sc}
}

func (*c15Engine) Execute(t *testing.T, c *Case) *Verdict {
	var p c15Params
	if err := json.Unmarshal(c.Params, &p); err != nil {
		return &Verdict{Verdict: "harness_error", Detail: err.Error()}
	}
	src := ""
	var expect []string
	if p.Body != nil {
		src, expect = p.Body.Src, p.Body.Expect
	} else {
		src = p.Prom.Prog.Src
	}
	resetElk()
	chunk, diags, failed, panicked := compileElk(src, false)
	if panicked != "" {
		return &Verdict{Verdict: "harness_error", Class: "compile_panic", Detail: panicked + "\n" + src}
	}
	if failed {
		return &Verdict{Verdict: "harness_error", Class: "workload_rejected", Detail: diags + "\n" + src}
	}
	oc := runElk(t, c.Sched, chunk, elkRunOpts{Pool: p.Pool, Queue: p.Queue})
	var v *Verdict
	if p.Prom != nil {
		v = judgeProm("C15", p.Prom, &oc)
		if v.Sig == "deadlock/queue-saturated" {
			v.Verdict = "inconclusive" // cannot happen: queue >= N
		}
	} else {
		pp := &promParams{Prog: promProgram{Src: src, Expect: expect, N: 0}, Pool: p.Pool, Queue: p.Queue}
		v = judgeProm("C15", pp, &oc)
		if v.Verdict == "violation" && v.Class == "tokens" {
			v.Detail = "plain / generator / async variants of the same body disagree with each other or with the reference evaluator: " + v.Detail
			if p.Body.Capture != "" {
				v.Sig = "tokens/closure-upvalue-after-suspension"
			}
		}
	}
	v.Hash = hashStrings(src, fmt.Sprint(p.Pool, p.Queue), hashDecisions(oc.Res.Decisions))
	v.Nontrivial = oc.Res.Switches >= 2
	v.Extra = map[string]int64{"family_body": b2i(p.Body != nil), "family_promdag": b2i(p.Prom != nil), fmt.Sprintf("pool_%d", p.Pool): 1}
	if p.Body != nil && p.Body.Capture != "" {
		v.Extra["family_capture"] = 1
	}
	v.Sample = map[string]any{"pool": p.Pool, "queue": p.Queue, "switches": oc.Res.Switches, "output": oc.Out}
	return v
}

func (*c15Engine) Shrink(c *Case) []*Case {
	var p c15Params
	if json.Unmarshal(c.Params, &p) != nil {
		return nil
	}
	var out []*Case
	if p.Pool > 1 {
		q := p
		q.Pool--
		b, _ := json.Marshal(&q)
		cc := *c
		cc.Params = b
		out = append(out, &cc)
	}
	return out
}

package harness

import (
	"context"
	"encoding/json"
	"fmt"
	"strings"
	"testing"

	"github.com/elk-language/elk/simhook"
	"github.com/elk-language/elk/value"
	"github.com/elk-language/elk/vm"
)

// E-CHAOS: accepted programs whose crash-freedom depends on a coincidence the
// simulator controls (property C01, slice): schedule, cancellation instant,
// clock jumps, knob extremes, primitives used across threads. The only oracle:
// no Go panic, no process death; stack-limit reports are excepted.

type chaosParams struct {
	Src       string `json:"src"`
	Family    string `json:"family"`
	InitStack int    `json:"init_stack"`
	CallStack int    `json:"call_stack"`
	Pool      int    `json:"pool"`
	Queue     int    `json:"queue"`
	Cancel    int64  `json:"cancel"` // 0 = no cancel
}

var chaosTemplates = []struct {
	name string
	gen  func(r *Rand) string
}{
	{"shared_generator", func(r *Rand) string {
		return fmt.Sprintf(`using Std::Sync::WaitGroup
def *counter(n: Int): Int
  i := 0
  while i < n
    yield i
    i = i + 1
  end
  0 - 1
end
def drain(g: Generator[Int, never], id: Int, wg: WaitGroup)
  do
    loop
      v := try g.next
      println "d${id}:${v}"
    end
  catch :stop_iteration
    println "d${id}:stop"
  end
  wg.end
end
g := counter(%d)
wg := WaitGroup(%d)
`, r.Range(1, 12), 2) + "go drain(g, 1, wg)\ngo drain(g, 2, wg)\nwg.wait\nprintln \"end\"\n"
	}},
	{"closure_to_thread", func(r *Rand) string {
		return fmt.Sprintf(`using Std::Sync::WaitGroup
def spawn(n: Int, wg: WaitGroup): Int
  var acc = n
  bump := || -> do
    acc = acc + 1
    acc
  end
  go do
    i := 0
    while i < %d
      bump.()
      i = i + 1
    end
    println "t:${bump.()}"
    wg.end
  end
  acc = acc * 2
  bump.() + acc
end
wg := WaitGroup(%d)
`, r.Range(1, 20), 3) + "println spawn(1, wg)\nprintln spawn(2, wg)\nprintln spawn(3, wg)\nwg.wait\nprintln \"end\"\n"
	}},
	{"close_under_users", func(r *Rand) string {
		return fmt.Sprintf(`using Std::Sync::WaitGroup
def pusher(ch: Channel[Int], base: Int, wg: WaitGroup)
  do
    i := 0
    while i < %d
      ch << base + i
      i = i + 1
    end
    println "p:done"
  catch Channel::ClosedError() as e
    println "p:closed"
  end
  wg.end
end
def popper(ch: Channel[Int], wg: WaitGroup)
  do
    loop
      v := try ch.pop
      println "c:${v}"
    end
  catch Channel::ClosedError() as e
    println "c:closed"
  end
  wg.end
end
ch := Channel::[Int](%d)
wg := WaitGroup(3)
go pusher(ch, 100, wg)
go pusher(ch, 200, wg)
go popper(ch, wg)
i := 0
while i < %d
  i = i + 1
end
ch.close
do
  ch.close
catch Channel::ClosedError() as e
  println "m:closed"
end
wg.wait
println "end"
`, r.Range(1, 6), r.Intn(3), r.Intn(60))
	}},
	{"waitgroup_misuse", func(r *Rand) string {
		return fmt.Sprintf(`using Std::Sync::WaitGroup
wg := WaitGroup(%d)
go do
  wg.end
end
do
  wg.end
  wg.end
  println "no error"
catch Error() as e
  println "err:${e.class.name}"
end
println "end"
`, r.Range(0, 2))
	}},
	{"promise_wait", func(r *Rand) string {
		return fmt.Sprintf(`async def leaf(n: Int): Int
  n * 2
end
async def boom(n: Int): Int
  throw unchecked n
end
async def slow(n: Int): Int
  await timeout(%d.milliseconds)
  n
end
do
  await Promise.wait(leaf(1), slow(2), leaf(3)%s)
  println "waited"
catch e
  println "err"
end
println "end"
`, Pick(r, []int{1, 50, 5000}), Pick(r, []string{"", ", boom(7)", ", boom(7), boom(8)"}))
	}},
	{"deep_in_threads", func(r *Rand) string {
		return fmt.Sprintf(`using Std::Sync::WaitGroup
def deep(n: Int, acc: Int): Int
  return acc if n == 0
  x := n * 2
  f := || -> x + acc
  r := deep(n - 1, acc + 1)
  r + f.() - f.()
end
def runner(d: Int, wg: WaitGroup)
  println "r:${deep(d, 0)}"
  wg.end
end
wg := WaitGroup(3)
go runner(%d, wg)
go runner(%d, wg)
go runner(%d, wg)
wg.wait
println "end"
`, Pick(r, []int{5, 60, 300}), Pick(r, []int{5, 200, 700}), Pick(r, []int{30, 1500}))
	}},
	{"cross_thread_unlock", func(r *Rand) string {
		return fmt.Sprintf(`using Std::Sync::{Mutex, RWMutex, WaitGroup}
m := Mutex()
rw := RWMutex()
wg := WaitGroup(3)
m.lock
go do
  do
    m.unlock
    m.unlock
  catch Error() as e
    println "a:${e.class.name}"
  end
  wg.end
end
go do
  m.lock
  println "b:locked"
  m.unlock
  wg.end
end
go do
  rw.read_lock
  do
    rw.unlock
  catch Error() as e
    println "c:${e.class.name}"
  end
  rw.read_unlock
  do
    rw.read_unlock
  catch Error() as e
    println "c2:${e.class.name}"
  end
  wg.end
end
i := 0
while i < %d
  i = i + 1
end
wg.wait
println "end"
`, r.Intn(50))
	}},
	{"errors_everywhere", func(r *Rand) string {
		return fmt.Sprintf(`using Std::Sync::WaitGroup
def risky(a: Int): Int
  throw unchecked a if a %% 3 == 0
  a
end
async def atask(n: Int): Int
  l := [1, 2, 3, 4].map() |i| -> risky(i + n)
  l.length
end
def worker(n: Int, wg: WaitGroup)
  do
    println "w:${await atask(n)}"
  catch Int() as e
    println "w:err${e}"
  finally
    wg.end
  end
end
wg := WaitGroup(3)
go worker(%d, wg)
go worker(%d, wg)
go worker(%d, wg)
do
  println "m:${await atask(%d)}"
catch Int() as e
  println "m:err${e}"
end
wg.wait
println "end"
`, r.Intn(9), r.Intn(9), r.Intn(9), r.Intn(9))
	}},
	{"timeouts_and_sleep", func(r *Rand) string {
		return fmt.Sprintf(`async def tick(n: Int, ms: Int): Int
  await timeout(ms.milliseconds)
  n
end
a := tick(1, %d)
b := tick(2, %d)
go do
  sleep %d.milliseconds
  println "slept"
end
println "a=${await a}"
println "b=${await b}"
sleep %d.milliseconds
println "end"
`, Pick(r, []int{1, 10, 3000}), Pick(r, []int{2, 500}), Pick(r, []int{1, 100, 60000}), Pick(r, []int{0, 5, 200}))
	}},
	{"waitgroup_start_end_race", func(r *Rand) string {
		// starts and ends of one wait group from different threads at the same time, the
		// counter hovering around zero; an end at zero is an Elk error (caught), never a crash
		starters, enders, n := r.Range(1, 2), r.Range(1, 3), r.Range(1, 5)
		var b strings.Builder
		b.WriteString(`using Std::Sync::WaitGroup
def starter(wg: WaitGroup, n: Int, done: WaitGroup)
  i := 0
  while i < n
    wg.start
    i = i + 1
  end
  done.end
end
def ender(wg: WaitGroup, n: Int, done: WaitGroup)
  ended := 0
  tries := 0
  while ended < n && tries < 80
    tries = tries + 1
    do
      wg.end
      ended = ended + 1
    catch Error() as e
      ended = ended + 0
    end
  end
  done.end
end
wg := WaitGroup()
`)
		fmt.Fprintf(&b, "done := WaitGroup(%d)\n", starters+enders)
		for i := 0; i < starters; i++ {
			fmt.Fprintf(&b, "go starter(wg, %d, done)\n", n*enders)
		}
		for i := 0; i < enders; i++ {
			fmt.Fprintf(&b, "go ender(wg, %d, done)\n", n*starters)
		}
		b.WriteString("done.wait\nprintln \"end\"\n")
		return b.String()
	}},
	{"rwmutex_unlock_race", func(r *Rand) string {
		// several threads release read (or write) locks of one RWMutex that the main thread
		// takes a few at a time: more releases than holds at some instants. Releasing a lock
		// nobody holds is an Elk error (caught), never the death of the process
		releasers, holds, tries := r.Range(2, 3), r.Range(1, 4), r.Range(2, 6)
		unlock := Pick(r, []string{"read_unlock", "read_unlock", "unlock"})
		lock := "read_lock"
		if unlock == "unlock" {
			lock, holds = "lock", 1
		}
		var b strings.Builder
		fmt.Fprintf(&b, `using Std::Sync::{RWMutex, WaitGroup}
def release(m: RWMutex, wg: WaitGroup, n: Int)
  i := 0
  while i < n
    i = i + 1
    do
      m.%s
    catch Error()
      nil
    end
  end
  wg.end
end
m := RWMutex()
wg := WaitGroup(%d)
`, unlock, releasers)
		for i := 0; i < holds; i++ {
			fmt.Fprintf(&b, "m.%s\n", lock)
		}
		for i := 0; i < releasers; i++ {
			fmt.Fprintf(&b, "go release(m, wg, %d)\n", tries)
		}
		b.WriteString("wg.wait\nprintln \"end\"\n")
		return b.String()
	}},
	{"dynamic_dispatch_first_calls", func(r *Rand) string {
		// several threads execute the same dynamically dispatched call sites for the first
		// time at the same moment, with receivers of different classes (inline method caches)
		sites := r.Range(1, 4)
		var b strings.Builder
		b.WriteString(`using Std::Sync::WaitGroup
class Animal
  def speak: Int
    1
  end
  def legs: Int
    4
  end
end
class Dog < Animal
  def speak: Int
    2
  end
end
class Cat < Animal
  def speak: Int
    3
  end
end
class Bird < Animal
  def legs: Int
    2
  end
end
`)
		for i := 0; i < sites; i++ {
			fmt.Fprintf(&b, "def talk%d(a: Animal, wg: WaitGroup)\n  println \"t%d=${a.speak * 10 + a.legs}\"\n  wg.end\nend\n", i, i)
		}
		kinds := []string{"Dog()", "Cat()", "Bird()", "Animal()"}
		nt := r.Range(2, 4)
		fmt.Fprintf(&b, "wg := WaitGroup(%d)\n", nt*sites)
		for i := 0; i < sites; i++ {
			for t := 0; t < nt; t++ {
				// receivers of the same class at one site are as interesting as different ones
				fmt.Fprintf(&b, "go talk%d(%s, wg)\n", i, kinds[r.Intn(1+r.Intn(len(kinds)))])
			}
		}
		b.WriteString("wg.wait\nprintln \"end\"\n")
		return b.String()
	}},
	{"once_memo_concurrent", func(r *Rand) string {
		var b strings.Builder
		fmt.Fprintf(&b, "using Std::Sync::*\nom := Once.memo ->\n  k := 0\n  while k < %d\n    k = k + 1\n  end\n  40 + 2\nend\nwg := WaitGroup(%d)\n", Pick(r, []int{0, 5, 60}), 3)
		for i := 1; i <= 3; i++ {
			fmt.Fprintf(&b, "go\n  println \"m%d=${om() + 1}\"\n  wg.end\nend\n", i)
		}
		b.WriteString("wg.wait\nprintln \"end\"\n")
		return b.String()
	}},
	{"select_closing", func(r *Rand) string {
		return fmt.Sprintf(`using Std::Sync::WaitGroup
cha := Channel::[Int](%d)
chb := Channel::[Int](%d)
wg := WaitGroup(2)
go do
  do
    cha << 1
    cha << 2
  catch Channel::ClosedError() as e
    println "pa:closed"
  end
  cha.close
  wg.end
end
go do
  chb << 10
  chb.close
  wg.end
end
i := 0
while i < 4
  select
  case v := <<cha
    println "a:${v.ok.inspect}"
  case v := <<chb
    println "b:${v.ok.inspect}"
  end
  i = i + 1
end
wg.wait
println "end"
`, r.Intn(2), r.Intn(2))
	}},
}

type c01Engine struct{}

func init() { register(&c01Engine{}) }

func (*c01Engine) Name() string     { return "C01" }
func (*c01Engine) Property() string { return "C01" }

func (*c01Engine) Generate(seed uint64, tier string) *Case {
	r := NewRand(seed)
	var p chaosParams
	switch k := r.Intn(20); {
	case k < 9:
		t := Pick(r, chaosTemplates)
		p.Family, p.Src = "chaos/"+t.name, t.gen(r)
	case k < 12:
		prog := genPromProgram(r, 8, true)
		p.Family, p.Src = "promdag", prog.Src
	case k < 15:
		var sp syncParams
		genSyncProgram(r, &sp)
		p.Family, p.Src = "sync/"+sp.Scenario, sp.Src
	case k < 17:
		bp := genBodyProgram(r, r.Range(1, 3))
		p.Family, p.Src = "bodies", bp.Src
	default:
		src, _ := genKnobProgram(r)
		p.Family, p.Src = "knobs", src
	}
	// Small initial stacks are hostile on purpose, but a frame that needs more than the 30%
	// head room of the growth check overruns the stack silently (the C10 finding below 64
	// slots; possible with large frames up to a few hundred) and corrupts the heap of the
	// worker: later cases of the same process then fail in unrelated places (seen as harness
	// errors and as one non-replayable violation). Stacks below 200 slots are therefore rare
	// and the worker process is recycled after each such case.
	p.InitStack = Pick(r, []int{200, 300, 300, 600, defInitStack, defInitStack})
	if r.Chance(0.02) {
		p.InitStack = Pick(r, []int{64, 80, 128})
	}
	p.CallStack = Pick(r, []int{64, 200, defCallStack})
	p.Pool = r.Range(1, 3)
	p.Queue = Pick(r, []int{1, 2, 8, 64, 256})
	if r.Chance(0.35) {
		p.Cancel = int64(1) << uint(r.Intn(17))
		p.Cancel += int64(r.Intn(int(p.Cancel)))
	}
	b, _ := json.Marshal(&p)
	sc := drawSched(r, 20_000)
	sc.MaxTicks = 3_000_000
	if p.Cancel > 0 {
		sc.Faults = append(sc.Faults, simhook.Fault{Tick: p.Cancel, Kind: "cancel"})
	}
	if r.Chance(0.4) {
		n := r.Range(1, 3)
		for i := 0; i < n; i++ {
			sc.Faults = append(sc.Faults, simhook.Fault{Tick: int64(r.Intn(60_000)), Kind: "clockjump", Arg: int64(Pick(r, []int{1, 50, 5000, 3_600_000})) * 1_000_000})
		}
	}
	return &Case{Params: b, Sched: sc}
}

func (*c01Engine) Execute(t *testing.T, c *Case) *Verdict {
	var p chaosParams
	if err := json.Unmarshal(c.Params, &p); err != nil {
		return &Verdict{Verdict: "harness_error", Detail: err.Error()}
	}
	oi, oc := vm.INIT_VALUE_STACK_SIZE, vm.CALL_STACK_SIZE
	vm.INIT_VALUE_STACK_SIZE, vm.CALL_STACK_SIZE = p.InitStack, p.CallStack
	defer func() { vm.INIT_VALUE_STACK_SIZE, vm.CALL_STACK_SIZE = oi, oc }()
	resetElk()
	chunk, diags, failed, panicked := compileElk(p.Src, p.Cancel > 0)
	if panicked != "" {
		return &Verdict{Verdict: "harness_error", Class: "compile_panic", Detail: panicked + "\n" + p.Src}
	}
	if failed {
		return &Verdict{Verdict: "harness_error", Class: "workload_rejected", Detail: diags + "\n" + p.Src}
	}
	var abort context.CancelFunc
	pending := false
	cfg := c.Sched
	cfg.EndOnMain = true
	cfg.FaultHook = func(f simhook.Fault) {
		if f.Kind != "cancel" {
			return
		}
		if abort != nil {
			abort()
		} else {
			pending = true
		}
	}
	var mainErr string
	var envp *Env
	res := Simulate(t, cfg, SimOpts{Pool: p.Pool, Queue: p.Queue}, func(e *Env) {
		envp = e
		vmCtx, abortExecution := context.WithCancel(context.Background())
		abort = abortExecution
		if pending {
			abort()
		}
		v := vm.New(vm.WithStdout(e.Out), vm.WithStderr(e.Out), vm.WithAborter(value.NewAborter(vmCtx, abortExecution)))
		_, rerr := v.InterpretTopLevel(chunk)
		if !rerr.IsUndefined() {
			mainErr = rerr.Inspect()
		}
	})
	out := ""
	if envp != nil {
		out = envp.Out.String()
	}
	v := &Verdict{Verdict: "ok", Property: "C01", Exec: 1, Res: &res}
	v.Hash = hashStrings(string(c.Params), hashDecisions(res.Decisions))
	v.Nontrivial = res.Tasks >= 2
	fam := p.Family
	if i := strings.Index(fam, "/"); i >= 0 {
		fam = strings.ReplaceAll(fam, "/", "_")
	}
	v.Extra = map[string]int64{"family_" + fam: 1, "outcome_" + res.Outcome: 1, "with_cancel": b2i(p.Cancel > 0), "main_ended_with_elk_error": b2i(mainErr != "")}
	if p.InitStack < 200 {
		v.Extra["recycle_worker"] = 1
		v.Extra["small_initial_stack"] = 1
	}
	cfgText := fmt.Sprintf("family %s, init_stack=%d slots, call_stack=%d frames, pool=%d, queue=%d, cancel tick=%d, faults=%v", p.Family, p.InitStack, p.CallStack, p.Pool, p.Queue, p.Cancel, c.Sched.Faults)
	v.Sample = map[string]any{"config": cfgText, "outcome": res.Outcome, "main_error": mainErr, "output": out}
	switch res.Outcome {
	case "gopanic":
		if stackLimitReport(res.PanicVal) {
			v.Extra["stack_limit_reported"] = 1
			return v
		}
		v.Verdict, v.Class = "violation", "gopanic"
		v.Sig = "gopanic/" + p.Family
		v.Detail = fmt.Sprintf("a Go panic escaped from an accepted program (in a real run it kills the interpreter): %s\n%s\n%s\noutput so far:\n%s\n--- program:\n%s", res.PanicVal, trimStack(res.PanicStack), cfgText, out, p.Src)
		return v
	case "harness_panic":
		v.Verdict, v.Class, v.Detail = "harness_error", "harness_panic", res.PanicVal
		return v
	}
	if res.TokenViolations > 0 {
		v.Verdict, v.Class, v.Detail = "harness_error", "token", res.FirstViolation
		return v
	}
	// deadlocks, step limits and Elk errors are not crashes
	return v
}

func (*c01Engine) Shrink(c *Case) []*Case {
	var p chaosParams
	if json.Unmarshal(c.Params, &p) != nil {
		return nil
	}
	var out []*Case
	mk := func(q chaosParams, faults []simhook.Fault) {
		b, _ := json.Marshal(&q)
		cc := *c
		cc.Params = b
		if faults != nil {
			cc.Sched.Faults = faults
		}
		out = append(out, &cc)
	}
	if p.InitStack != defInitStack {
		q := p
		q.InitStack = defInitStack
		mk(q, nil)
	}
	if p.CallStack != defCallStack {
		q := p
		q.CallStack = defCallStack
		mk(q, nil)
	}
	if p.Queue < 256 {
		q := p
		q.Queue = 256
		mk(q, nil)
	}
	return out
}

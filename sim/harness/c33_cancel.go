package harness

import (
	"context"
	"encoding/json"
	"fmt"
	"os"
	"strings"
	"testing"

	"github.com/elk-language/elk/simhook"
	"github.com/elk-language/elk/value"
	"github.com/elk-language/elk/vm"
)

// E-CANCEL: cancellation of non-terminating programs compiled with abort
// checks, as in the REPL (property C33). The fault is the cancellation of the
// main thread's context at a PRNG-chosen scheduler tick.

type cancelParams struct {
	Src    string `json:"src"`
	Shape  string `json:"shape"`  // the construct the program never leaves
	Where  string `json:"where"`  // main | go
	Cancel int64  `json:"cancel"` // tick of the cancel fault
	Budget int64  `json:"budget"` // ticks allowed after the cancel
	Pool   int    `json:"pool"`
	// Session: the program is the second input of a REPL-like session (one incremental
	// checker, one VM, InterpretREPL): later inputs are compiled through another path
	Session bool `json:"session,omitempty"`
	// API: Go-API clients of one channel using only the context-aware operations; the
	// cancel is the only thing that can release a blocked client (shape "api_chan_cancel")
	API *syncParams `json:"api,omitempty"`
}

type shapeDef struct {
	name string
	defs string
	body string // never terminates; may use x (Int local declared before)
	// blocking constructs with no context support at all (D4): reported as known findings
	known bool
}

var cancelShapes = []shapeDef{
	{name: "loop", body: "loop\n  x = x + 1\nend\n"},
	{name: "while_true", body: "while true\n  x = x + 1\nend\n"},
	{name: "until_false", body: "until false\n  x = x + 1\nend\n"},
	{name: "loop_empty", body: "loop\nend\n"},
	{name: "while_cond", body: "while x >= 0\n  x = x + 1\nend\n"},
	{name: "for_endless_range", body: "for i in 1...\n  x = x + i\nend\n"},
	{name: "for_endless_iter", body: "for i in (1...).iter\n  x = x + i\nend\n"},
	{name: "for_generator", defs: "def *nat: Int\n  i := 0\n  loop\n    yield i\n    i = i + 1\n  end\n  0\nend\n", body: "for n in nat()\n  x = x + n\nend\n"},
	{name: "generator_next", defs: "def *nat2: Int\n  i := 0\n  loop\n    yield i\n    i = i + 1\n  end\n  0\nend\n", body: "g := nat2()\nloop\n  x = x + (try g.next)\nend\n"},
	{name: "tail_recursion", defs: "def ping(n: Int): Int\n  pong(n + 1)\nend\ndef pong(n: Int): Int\n  ping(n + 1)\nend\n", body: "x = ping(0)\n"},
	{name: "self_tail_recursion", defs: "def spin_rec(n: Int): Int\n  spin_rec(n + 1)\nend\n", body: "x = spin_rec(0)\n"},
	{name: "nested_labelled", body: "$outer: loop\n  loop\n    x = x + 1\n    continue[outer] if x % 2 == 0\n  end\nend\n"},
	{name: "nested_for_in_loop", body: "loop\n  for i in [1, 2, 3]\n    x = x + i\n  end\nend\n"},
	{name: "loop_calling_method", defs: "def step(a: Int): Int\n  a + 1\nend\n", body: "loop\n  x = step(x)\nend\n"},
	{name: "loop_calling_closure", body: "fn := |a: Int| -> a + 1\nloop\n  x = fn.(x)\nend\n"},
	{name: "loop_in_closure", body: "fn := |a: Int| -> do\n  var y = a\n  loop\n    y = y + 1\n  end\n  y\nend\nx = fn.(1)\n"},
	{name: "loop_in_native_map", body: "q := [1, 2].map() |i| ->\n  var j = i\n  loop\n    j = j + 1\n  end\n  j\nend\nx = q.length\n"},
	{name: "loop_in_method", defs: "def forever(a: Int): Int\n  var y = a\n  loop\n    y = y + 1\n  end\n  y\nend\n", body: "x = forever(1)\n"},
	{name: "loop_in_do_finally", body: "do\n  loop\n    x = x + 1\n  end\nfinally\n  x = 0\nend\n"},
	{name: "loop_with_defer", body: "do\n  defer println(\"deferred\")\n  loop\n    x = x + 1\n  end\nend\n"},
	{name: "loop_with_inner_catch", defs: "def thrower(a: Int): Int\n  throw unchecked a if a % 3 == 0\n  a\nend\n", body: "loop\n  do\n    x = thrower(x + 1)\n  catch Int() as e\n    x = e + 1\n  end\nend\n"},
	{name: "loop_continue", body: "loop\n  continue\nend\n"},
	{name: "while_continue", body: "while true\n  x = x + 1\n  continue if x > 3\n  x = x - 1\nend\n"},
	{name: "until_continue", body: "until false\n  continue\nend\n"},
	{name: "for_range_continue", body: "for i in 1...\n  continue if i > 2\n  x = x + i\nend\n"},
	{name: "continue_in_do_finally", body: "loop\n  do\n    x = x + 1\n    continue\n  finally\n    x = x + 0\n  end\nend\n"},
	{name: "while_continue_in_nested_finally", body: "while x >= 0\n  do\n    do\n      x = x + 1\n      continue if x > 0\n    finally\n      x = x + 0\n    end\n  finally\n    x = x + 0\n  end\nend\n"},
	{name: "labelled_continue_in_do_finally", body: "$outer: loop\n  loop\n    do\n      x = x + 1\n      continue[outer]\n    finally\n      x = x + 0\n    end\n  end\nend\n"},
	{name: "break_in_do_finally_outer_loop", body: "loop\n  loop\n    do\n      x = x + 1\n      break\n    finally\n      x = x + 0\n    end\n  end\nend\n"},
	{name: "for_growing_list", body: "gq := [1]\nfor n in gq\n  gq << n + 1\nend\n"},
	{name: "for_growing_list_continue", body: "gq := [1]\nfor n in gq\n  gq << n + 1\n  continue\nend\n"},
	{name: "for_growing_list_in_method", defs: "def grow_forever(a: Int): Int\n  gq := [a]\n  for n in gq\n    gq << n + 1\n  end\n  gq.length\nend\n", body: "x = grow_forever(1)\n"},
	{name: "for_string_growing", body: "gs := [\"a\"]\nfor s in gs\n  gs << s\nend\n"},
	{name: "labelled_continue_outer", body: "$outer: loop\n  loop\n    continue[outer]\n  end\nend\n"},
	{name: "chan_pop", body: "ch := Channel::[Int](0)\nx = try ch.pop\n"},
	{name: "chan_pop_result", body: "ch := Channel::[Int](1)\nr := <<ch\nx = 1\n"},
	{name: "chan_push_full", body: "ch := Channel::[Int](1)\nch << 1\nch << 2\n"},
	{name: "chan_push_unbuffered", body: "ch := Channel::[Int](0)\ntry ch.push(1)\n"},
	{name: "for_in_channel", body: "ch := Channel::[Int](2)\nch << 5\nfor v in ch\n  x = x + v\nend\n"},
	{name: "select_none_ready", body: "cha := Channel::[Int](0)\nchb := Channel::[Int](1)\nchb << 1\nselect\ncase v := <<cha\n  x = 1\ncase chb << 2\n  x = 2\nend\n"},
	{name: "poppers_buffered", defs: "def popper(ch: Channel[Int], id: Int)\n  loop\n    v := try ch.pop\n  end\nend\n", body: "jobs := Channel::[Int](2)\ngo popper(jobs, 1)\ngo popper(jobs, 2)\ngo popper(jobs, 3)\nloop\n  jobs << x\n  x = x + 1\nend\n"},
	{name: "poppers_result_buffered", defs: "def rpopper(ch: Channel[Int], id: Int)\n  loop\n    r := <<ch\n    break unless r.ok\n  end\nend\n", body: "rjobs := Channel::[Int](1)\ngo rpopper(rjobs, 1)\ngo rpopper(rjobs, 2)\nloop\n  rjobs << x\n  x = x + 1\n  sleep 1.millisecond if x % 7 == 0\nend\n"},
	{name: "poppers_bursty", defs: "def bpopper(ch: Channel[Int], id: Int)\n  var k = 0\n  loop\n    v := try ch.pop\n    k = 0\n    while k < 25\n      k = k + 1\n    end\n  end\nend\n", body: "bjobs := Channel::[Int](2)\ngo bpopper(bjobs, 1)\ngo bpopper(bjobs, 2)\ngo bpopper(bjobs, 3)\nvar bi = 0\nloop\n  bjobs << x\n  bjobs << x + 1\n  x = x + 2\n  bi = 0\n  while bi < 400\n    bi = bi + 1\n  end\nend\n"},
	{name: "rpoppers_bursty", defs: "def brpopper(ch: Channel[Int], id: Int)\n  var k = 0\n  loop\n    r := <<ch\n    break unless r.ok\n    k = 0\n    while k < 40\n      k = k + 1\n    end\n  end\nend\n", body: "brjobs := Channel::[Int](3)\ngo brpopper(brjobs, 1)\ngo brpopper(brjobs, 2)\ngo brpopper(brjobs, 3)\ngo brpopper(brjobs, 4)\nvar bri = 0\nloop\n  brjobs << x\n  brjobs << x + 1\n  x = x + 2\n  bri = 0\n  while bri < 900\n    bri = bri + 1\n  end\nend\n"},
	{name: "poppers_feed_then_spin", defs: "def fpopper(ch: Channel[Int], id: Int)\n  var k = 0\n  loop\n    v := try ch.pop\n    k = 0\n    while k < 25\n      k = k + 1\n    end\n  end\nend\n", body: "fjobs := Channel::[Int](3)\ngo fpopper(fjobs, 1)\ngo fpopper(fjobs, 2)\ngo fpopper(fjobs, 3)\ngo fpopper(fjobs, 4)\nvar fi = 0\nwhile fi < 9\n  fjobs << fi\n  fi = fi + 1\nend\nloop\n  x = x + 1\nend\n"},
	{name: "rpoppers_feed_then_block", defs: "def frpopper(ch: Channel[Int], id: Int)\n  var k = 0\n  loop\n    r := <<ch\n    break unless r.ok\n    k = 0\n    while k < 40\n      k = k + 1\n    end\n  end\nend\n", body: "frjobs := Channel::[Int](2)\ngo frpopper(frjobs, 1)\ngo frpopper(frjobs, 2)\ngo frpopper(frjobs, 3)\nvar fri = 0\nwhile fri < 7\n  frjobs << fri\n  fri = fri + 1\nend\nfrnever := Channel::[Int](0)\nx = try frnever.pop\n"},
	{name: "pushers_buffered", defs: "def pusher(ch: Channel[Int], id: Int)\n  i := 0\n  loop\n    ch << id * 1000 + i\n    i = i + 1\n  end\nend\n", body: "pch := Channel::[Int](2)\ngo pusher(pch, 1)\ngo pusher(pch, 2)\nloop\n  x = x + (try pch.pop)\nend\n"},
	{name: "await_in_async_loop", defs: "async def leaf(n: Int): Int\n  n + 1\nend\n", body: "loop\n  x = await leaf(x)\nend\n"},
	// constructs with no context support (D4)
	{name: "await_sync_never", defs: "async def hang(ch: Channel[Int]): Int\n  try ch.pop\nend\n", body: "nch := Channel::[Int](0)\nx = await hang(nch)\n"},
	{name: "wg_wait", body: "wgx := Std::Sync::WaitGroup(1)\nwgx.wait\n"},
	{name: "mutex_lock", known: true, body: "mx := Std::Sync::Mutex()\nmx.lock\nmx.lock\n"},
	{name: "sleep_long", body: "sleep 1000.hours\n"},
	{name: "sleep_in_loop", body: "loop\n  sleep 30.seconds\n  x = x + 1\nend\n"},
	// catch-all handlers inside the endless loop swallow the abort error of the operation they
	// guard: the check on the back edge of the loop (outside the handler) has to end the program
	{name: "loop_catch_all_sleep", body: "loop\n  do\n    sleep 30.seconds\n  catch _\n    x = x + 1\n  end\nend\n"},
	{name: "loop_catch_all_pop", body: "ch := Channel::[Int](0)\nloop\n  do\n    x = try ch.pop\n  catch _\n    x = x + 1\n  end\nend\n"},
	{name: "loop_catch_all_spin", defs: "def spin_some(a: Int): Int\n  var i = 0\n  while i < 1000\n    i = i + 1\n  end\n  a + 1\nend\n", body: "loop\n  do\n    x = spin_some(x)\n  catch _\n    x = 0\n  end\nend\n"},
	{name: "nested_catch_all", body: "loop\n  do\n    loop\n      do\n        sleep 10.seconds\n      catch _\n        x = x + 1\n      end\n      break if x > 1000000\n    end\n  catch _\n    x = 0\n  end\nend\n"},
}

type c33Engine struct{}

func init() { register(&c33Engine{}) }

func (*c33Engine) Name() string     { return "C33" }
func (*c33Engine) Property() string { return "C33" }

func prologue(r *Rand) string {
	var b strings.Builder
	b.WriteString("var x = 0\n")
	n := r.Intn(4)
	for i := 0; i < n; i++ {
		switch r.Intn(4) {
		case 0:
			fmt.Fprintf(&b, "pi%d := 0\nwhile pi%d < %d\n  pi%d = pi%d + 1\n  x = x + pi%d\nend\n", i, i, r.Range(1, 40), i, i, i)
		case 1:
			fmt.Fprintf(&b, "pl%d := [1, 2, 3].map() |a| -> a * %d\nx = x + pl%d.length\n", i, r.Range(1, 5), i)
		case 2:
			fmt.Fprintf(&b, "println \"p%d\"\n", i)
		default:
			fmt.Fprintf(&b, "x = x * 2 + %d\n", r.Intn(9))
		}
	}
	return b.String()
}

func (*c33Engine) Generate(seed uint64, tier string) *Case {
	r := NewRand(seed)
	if r.Chance(0.06) && os.Getenv("SIM_C33_SHAPE") == "" {
		// the context-aware channel operations themselves, driven through the Go API:
		// 2-5 clients x 1-5 PushCtx / PopCtx on one channel of capacity 0-3, nobody closes
		// it, the peer cancels the context after a PRNG-chosen number of steps
		var sp syncParams
		sp.Family = "api-chan"
		sp.Cap = r.Intn(4)
		sp.NoClose = true
		next := 1
		for c, nc := 0, r.Range(2, 5); c < nc; c++ {
			var ops []chanOp
			producer := r.Chance(0.35)
			for i, n := 0, r.Range(1, 5); i < n; i++ {
				if producer && r.Chance(0.8) || !producer && r.Chance(0.1) {
					ops = append(ops, chanOp{Kind: "pushctx", Val: next})
					next++
				} else {
					ops = append(ops, chanOp{Kind: "popctx"})
				}
			}
			sp.Clients = append(sp.Clients, ops)
		}
		sp.CloseAt = r.Range(0, 60)
		p := cancelParams{Shape: "api_chan_cancel", Where: "api", API: &sp}
		bb, _ := json.Marshal(&p)
		sc := drawSched(r, 2000)
		sc.MaxTicks = 3_000_000
		if sc.Strategy == "random" {
			sc.MeanGap = Pick(r, []int{1, 2, 3, 5, 8})
		}
		return &Case{Params: bb, Sched: sc}
	}
	sh := Pick(r, cancelShapes)
	if want := os.Getenv("SIM_C33_SHAPE"); want != "" { // debugging aid: explore one shape only
		for _, c := range cancelShapes {
			if c.name == want {
				sh = c
			}
		}
	}
	p := cancelParams{Shape: sh.name, Pool: r.Range(1, 3), Budget: 600_000}
	var b strings.Builder
	b.WriteString(sh.defs)
	where := "main"
	if r.Chance(0.3) {
		where = "go"
	}
	p.Where = where
	if where == "main" {
		b.WriteString(prologue(r))
		b.WriteString("println \"start\"\n")
		b.WriteString(sh.body)
		b.WriteString("println \"unreachable ${x}\"\n")
	} else {
		// the construct runs in a go thread; main blocks on a channel the thread never feeds
		body := "  " + strings.ReplaceAll(strings.TrimRight(sh.body, "\n"), "\n", "\n  ") + "\n"
		b.WriteString("def worker(done: Channel[Int])\n  var x = 0\n" + body + "  done << x\nend\n")
		b.WriteString(prologue(r))
		b.WriteString("println \"start\"\ndone := Channel::[Int](0)\ngo worker(done)\n")
		if r.Bool() {
			b.WriteString("x = try done.pop\n")
		} else {
			b.WriteString("loop\n  x = x + 1\nend\n")
		}
		b.WriteString("println \"unreachable ${x}\"\n")
	}
	p.Src = b.String()
	p.Session = r.Chance(0.3)
	// log-uniform cancel instant
	maxExp := 16
	p.Cancel = int64(1) << uint(r.Intn(maxExp))
	p.Cancel += int64(r.Intn(int(p.Cancel)))
	bb, _ := json.Marshal(&p)
	sc := drawSched(r, p.Cancel+2000)
	sc.Faults = []simhook.Fault{{Tick: p.Cancel, Kind: "cancel"}}
	sc.FairAfter = p.Cancel
	sc.MaxTicks = p.Cancel + p.Budget
	if sc.Strategy == "starve" {
		sc.Strategy = "random" // starvation is not a fair schedule; liveness is only promised under fairness
	}
	return &Case{Params: bb, Sched: sc}
}

func (*c33Engine) Execute(t *testing.T, c *Case) *Verdict {
	var p cancelParams
	if err := json.Unmarshal(c.Params, &p); err != nil {
		return &Verdict{Verdict: "harness_error", Detail: err.Error()}
	}
	if p.API != nil {
		cc := *c
		cc.Params, _ = json.Marshal(p.API)
		v := (&c25Engine{}).runAPI(t, &cc, p.API)
		v.Property = "C33"
		if v.Extra == nil {
			v.Extra = map[string]int64{}
		}
		v.Extra["shape_api_chan_cancel"] = 1
		v.Extra["cancel_fired"] = 1
		v.Nontrivial = true
		if v.Verdict == "violation" {
			if v.Class == "deadlock" {
				v.Class, v.Sig = "hangs", "hangs/api_chan_cancel"
				v.Detail = "a context-aware channel operation stayed blocked after its context was cancelled (nothing closes the channel): " + v.Detail + "\nclients: " + string(cc.Params)
			} else {
				v.Sig = v.Class + "/api_chan_cancel"
			}
		}
		return v
	}
	resetElk()
	var chunk, warm *vm.BytecodeFunction
	var diags, panicked string
	var failed bool
	if p.Session {
		var chunks []*vm.BytecodeFunction
		chunks, diags, failed, panicked = compileElkSession([]string{"sess_warm := 1\nsess_warm + 1\n", p.Src})
		if !failed && len(chunks) == 2 {
			warm, chunk = chunks[0], chunks[1]
		}
	} else {
		chunk, diags, failed, panicked = compileElk(p.Src, true)
	}
	if panicked != "" {
		return &Verdict{Verdict: "harness_error", Class: "compile_panic", Detail: panicked + "\n" + p.Src}
	}
	if failed {
		return &Verdict{Verdict: "harness_error", Class: "workload_rejected", Detail: diags + "\n" + p.Src}
	}
	cancelled := false
	var cancelAt int64
	keepGoing := p.Where == "go"
	var oc ElkOutcome
	var envp *Env
	cfg := c.Sched
	cfg.EndOnMain = !keepGoing
	var abort context.CancelFunc
	pendingCancel := false
	cfg.FaultHook = func(f simhook.Fault) {
		if f.Kind != "cancel" {
			return
		}
		if envp != nil && abort != nil {
			cancelled = true
			cancelAt = envp.S.Ticks()
			abort()
		} else {
			pendingCancel = true // arrived before the VM existed: delivered as soon as it does
		}
	}
	mainDone := false
	oc.Res = Simulate(t, cfg, SimOpts{Pool: p.Pool, Queue: 64}, func(e *Env) {
		envp = e
		// as the REPL does: the main thread gets its own cancellable context;
		// the default thread pool keeps the global aborter
		vmCtx, abortExecution := context.WithCancel(context.Background())
		abort = abortExecution
		if pendingCancel {
			cancelled = true
			cancelAt = e.S.Ticks()
			abort()
		}
		v := vm.New(vm.WithStdout(e.Out), vm.WithStderr(e.Out), vm.WithAborter(value.NewAborter(vmCtx, abortExecution)))
		var rerr value.Value
		if warm != nil {
			_, rerr = v.InterpretREPL(warm)
			if rerr.IsUndefined() {
				_, rerr = v.InterpretREPL(chunk)
			}
		} else {
			_, rerr = v.InterpretTopLevel(chunk)
		}
		if !rerr.IsUndefined() {
			oc.Err = rerr.Inspect()
		}
		mainDone = true
	})
	if envp != nil {
		oc.Out = envp.Out.String()
	}
	res := oc.Res
	v := &Verdict{Verdict: "ok", Property: "C33", Exec: 1, Res: &oc.Res}
	v.Hash = hashStrings(p.Src, fmt.Sprint(p.Cancel), hashDecisions(res.Decisions))
	v.Nontrivial = cancelled
	v.Extra = map[string]int64{"shape_" + p.Shape: 1, "where_" + p.Where: 1, "cancel_fired": b2i(cancelled), "second_input_of_a_session": b2i(p.Session)}
	v.Sample = map[string]any{"shape": p.Shape, "where": p.Where, "cancel_tick": p.Cancel, "cancel_applied_at": cancelAt, "end_tick": res.Ticks, "main_error": oc.Err, "outcome": res.Outcome}
	tag := p.Shape + "@" + p.Where
	if p.Session {
		tag += "@session"
	}
	known := false
	for _, s := range cancelShapes {
		if s.name == p.Shape && s.known {
			known = true
		}
	}
	switch res.Outcome {
	case "gopanic":
		v.Verdict, v.Class, v.Sig = "violation", "gopanic", "gopanic/"+p.Shape
		v.Detail = fmt.Sprintf("Go panic while cancelling shape %s: %s\n%s\n--- program:\n%s", tag, res.PanicVal, trimStack(res.PanicStack), p.Src)
		return v
	case "harness_panic":
		v.Verdict, v.Class, v.Detail = "harness_error", "harness_panic", res.PanicVal
		return v
	}
	if res.TokenViolations > 0 {
		v.Verdict, v.Class, v.Detail = "harness_error", "token", res.FirstViolation
		return v
	}
	if !cancelled {
		// the program ended (or got stuck) before the cancel arrived
		if res.Outcome == "ok" && mainDone {
			v.Verdict, v.Class = "inconclusive", "terminated_before_cancel"
			v.Detail = "program ended before the cancel: " + oc.Err + "\n" + p.Src
		} else {
			v.Verdict, v.Class = "inconclusive", "no_cancel:"+res.Outcome
		}
		return v
	}
	if res.Outcome == "deadlock" && mainDone && (onlyIdlePoolWorkers(res.State) || noProgramThreadLeft(res.Origins)) {
		// the main thread and every go thread have ended; what is left are workers of the
		// thread pool (idle, or inside a task that never ends: the pool keeps the global
		// context, as in the REPL) and helper goroutines of the runtime
		res.Outcome = "ok"
	}
	switch res.Outcome {
	case "steplimit":
		v.Verdict, v.Class = "violation", "runs_on"
		v.Sig = "runs_on/" + p.Shape
		if known {
			v.Sig = "nocontext/" + p.Shape
		}
		v.Detail = fmt.Sprintf("shape %s: still running %d ticks after its context was cancelled at tick %d (fair round-robin since then)\nstate: %s\noutput:\n%s\n--- program:\n%s", tag, res.Ticks-cancelAt, cancelAt, res.State, oc.Out, p.Src)
		return v
	case "deadlock":
		v.Verdict, v.Class = "violation", "hangs"
		v.Sig = "hangs/" + p.Shape
		if known {
			v.Sig = "nocontext/" + p.Shape
		}
		v.Detail = fmt.Sprintf("shape %s: blocked forever although its context was cancelled at tick %d\nstate: %s\noutput:\n%s\n--- program:\n%s", tag, cancelAt, res.State, oc.Out, p.Src)
		return v
	}
	if !strings.Contains(oc.Err, "ExecutionAborted") && known {
		v.Verdict, v.Class, v.Sig = "violation", "ran_past", "nocontext/"+p.Shape
		v.Detail = fmt.Sprintf("shape %s: the blocking operation ignored the cancel\noutput:\n%s\n--- program:\n%s", tag, oc.Out, p.Src)
		return v
	}
	if !strings.Contains(oc.Err, "ExecutionAborted") {
		v.Verdict, v.Class, v.Sig = "violation", "wrong_error", "wrong_error/"+p.Shape
		v.Detail = fmt.Sprintf("shape %s: main thread ended after the cancel with %q instead of an execution-aborted error\noutput:\n%s\n--- program:\n%s", tag, oc.Err, oc.Out, p.Src)
		return v
	}
	if strings.Contains(oc.Out, "unreachable") {
		v.Verdict, v.Class, v.Sig = "violation", "ran_past", "ran_past/"+p.Shape
		if known {
			v.Sig = "nocontext/" + p.Shape
		}
		v.Detail = fmt.Sprintf("shape %s: execution continued past the non-terminating construct\noutput:\n%s\n--- program:\n%s", tag, oc.Out, p.Src)
		return v
	}
	v.Extra["ticks_to_stop"] = res.Ticks - cancelAt
	return v
}

func (*c33Engine) Shrink(c *Case) []*Case {
	var p cancelParams
	if json.Unmarshal(c.Params, &p) != nil {
		return nil
	}
	var out []*Case
	// move the cancel earlier
	for _, k := range []int64{p.Cancel / 2, p.Cancel - 1} {
		if k >= 1 && k < p.Cancel {
			q := p
			q.Cancel = k
			b, _ := json.Marshal(&q)
			cc := *c
			cc.Params = b
			cc.Sched.Faults = []simhook.Fault{{Tick: k, Kind: "cancel"}}
			cc.Sched.FairAfter = k
			cc.Sched.MaxTicks = k + p.Budget
			out = append(out, &cc)
		}
	}
	return out
}

// noProgramThreadLeft reports whether no live task is a thread of the program: the root
// task (main thread) or a thread started by the GO instruction (vm/thread.go).
func noProgramThreadLeft(origins string) bool {
	if origins == "" {
		return false
	}
	for _, f := range strings.Fields(origins) {
		o := f[strings.Index(f, ":")+1:]
		if o == "root" || strings.HasPrefix(o, "vm/thread.go") || strings.HasPrefix(o, "harness") {
			return false
		}
	}
	return true
}

// onlyIdlePoolWorkers reports whether every task of a deadlock state vector is
// a thread pool worker blocked on its task queue.
func onlyIdlePoolWorkers(state string) bool {
	for _, f := range strings.Fields(state) {
		if !strings.Contains(f, "vm/thread_pool.go") || !strings.Contains(f, "chanrange") {
			return false
		}
	}
	return true
}

package harness

import (
	"encoding/json"
	"fmt"
	"strings"
	"testing"

	"github.com/elk-language/elk/simhook"
	"github.com/elk-language/elk/value"
	"github.com/elk-language/elk/vm"
)

// E-KNOB: runtime sizing parameters must not change program results
// (property C10). The perturbations are the knob vector drawn per run, the
// schedule (it matters for pool and queue size), and a failpoint that forces a
// value-stack reallocation at PRNG-chosen calls.

type knobParams struct {
	Src       string   `json:"src"`
	InitStack int      `json:"init_stack"` // slots
	MaxStack  int      `json:"max_stack"`  // slots
	CallStack int      `json:"call_stack"` // frames
	Pool      int      `json:"pool"`
	Queue     int      `json:"queue"`
	Presize   int      `json:"presize"`
	ForceGrow []int    `json:"force_grow"` // indices of callBytecodeFunction calls at which a reallocation is forced
	Fragments []string `json:"fragments"`
}

const knobPrelude = `def deep(n: Int, acc: Int): Int
  return acc if n == 0
  x := n * 2
  f := || -> x + acc
  r := deep(n - 1, acc + 1)
  r + f.() - f.()
end

def *gen(n: Int): Int
  i := 0
  while i < n
    yield i * 3 + deep(i, 0)
    i = i + 1
  end
  0 - 1
end

def mix(n: Int): Int
  return 0 if n == 0
  g := gen(3)
  a := try g.next
  r := mix(n - 1)
  b := try g.next
  a + b + r
end

def walk(n: Int, l: List[Int]): Int
  return l.length if n == 0
  y := n + 1
  add := |k: Int| -> do
    l << k + y
    l.length
  end
  before := add.(n)
  r := walk(n - 1, l)
  after := add.(n * 100)
  r + before + after - y
end

def plain_depth(n: Int): Int
  return 0 if n == 0
  x := n
  1 + plain_depth(n - 1) + x - x
end

class KDeep
  init(@depth: Int); end
  def to_string: String
    "deep(" + plain_depth(@depth).to_string + ")"
  end
end

class KTag
  init(@name: String); end
  def to_string: String
    "<" + @name + ">"
  end
end

def render(depth: Int): String
  d := KDeep(depth)
  a := KTag("a")
  b := KTag("b")
  "${d} ${a} ${b} tail"
end

class KKey
  init(@id: Int, @depth: Int); end
  pure def sink(n: Int, a: Int, b: Int, c: Int): Int
    return a + b + c if n <= 0
    1 + sink(n - 1, a, b, c)
  end
  pure def hash: UInt64
    sink(@depth, 1, 2, 3)
    @id.hash
  end
  def ==(other: any): bool
    if other <<: KKey
      return @id == other.id
    end
    false
  end
  def id: Int then @id
end

def build_map(depth: Int): String
  k1 := KKey(1, depth)
  k2 := KKey(2, 0)
  k3 := KKey(3, 0)
  m := { k1 => "one", k2 => "two", k3 => "three" }
  "len=" + m.length.to_string + " " + (m[k1] ?? "MISSING") + " " + (m[k2] ?? "MISSING") + " " + (m[k3] ?? "MISSING")
end

def mutate_after(d: Int, k: Int): Int
  var c = k
  inc := || -> do
    c = c + 1
    c
  end
  a := inc.()
  plain_depth(d)
  c = c * 10
  b := inc.()
  plain_depth(d + d)
  c = c + 7
  a + b + inc.() + c
end

def nested_mutate(n: Int, d: Int): Int
  return mutate_after(d, n) if n == 0
  var t = n
  bump := || -> do
    t = t + 2
    t
  end
  r := nested_mutate(n - 1, d)
  t = t + r
  bump.() + t
end

def *gen_acc(n: Int, d: Int): Int
  i := 0
  acc := 0
  while i < n
    r := deep(d + i, 0)
    acc = acc + r + i
    i = i + 1
    yield acc
  end
  acc * 2
end

def drain_acc(n: Int, d: Int): Int
  g := gen_acc(n, d)
  s := 0
  for v in g
    s = s * 3 + v
  end
  s
end

def drain_nested(n: Int, d: Int): Int
  return drain_acc(2, d) if n == 0
  g := gen_acc(3, d)
  a := try g.next
  r := drain_nested(n - 1, d + 7)
  b := try g.next
  c := try g.next
  a + b * 2 + c * 3 + r
end

async def leafk(n: Int): Int
  n * 2 + 1
end

async def aw_acc(n: Int, d: Int): Int
  acc := 0
  i := 0
  while i < n
    p := leafk(i)
    r := deep(d + i, 0)
    acc = acc + r
    v := 100 + (await p)
    acc = acc * 2 + v
    i = i + 1
  end
  acc
end

async def aw(n: Int): Int
  return n if n < 2
  a := aw(n - 1)
  b := aw(n - 2)
  (await a) + (await b)
end

def sum_all(l: List[Int]): Int
  s := 0
  for v in l
    s = s + v
  end
  s
end

def wide(a: Int, b: Int, c: Int, d: Int, e: Int, f: Int, g: Int, h: Int): Int
  return a if a > 20
  wide(b + 1, c + 1, d + 1, e + 1, f + 1, g + 1, h + 1, a + 2) + 1
end

`

func genKnobProgram(r *Rand) (string, []string) {
	if r.Chance(0.25) {
		// the generated plain / generator / async bodies of E-BODY: deterministic programs
		// whose frames are saved and restored around every yield and await
		bp := genBodyProgram(r, r.Range(1, 3))
		return bp.Src, []string{"bodies"}
	}
	var b strings.Builder
	b.WriteString(knobPrelude)
	var frags []string
	n := r.Range(2, 5)
	for i := 0; i < n; i++ {
		switch k := r.Intn(17); k {
		case 15:
			// operand conversions that run user bytecode in the middle of a multi-operand instruction
			// (string interpolation -> to_string): the reallocation happens inside the conversion,
			// the remaining operands are read afterwards
			d := Pick(r, []int{2, 30, 100, 280, 450})
			fmt.Fprintf(&b, "println \"interp=${render(%d)}\"\n", d)
			frags = append(frags, fmt.Sprintf("interp%d", d))
		case 16:
			// a hash map literal whose first key has a user-defined hash that recurses deeply
			d := Pick(r, []int{2, 30, 100, 280, 450})
			fmt.Fprintf(&b, "println \"maplit=${build_map(%d)}\"\n", d)
			frags = append(frags, fmt.Sprintf("maplit%d", d))
		case 13:
			// native methods that call back into bytecode: the reallocation happens inside the
			// callback, the native's result has to land in the reallocated stack
			d := Pick(r, []int{2, 30, 100, 280})
			fmt.Fprintf(&b, "ncb%d := [1, 2, 3].map(|a: Int|: Int -> a * 1000 + plain_depth(a * %d))\nprintln \"ncb=${sum_all(ncb%d)} ${ncb%d.length}\"\n", i, d, i, i)
			frags = append(frags, fmt.Sprintf("nativemap%d", d))
		case 14:
			d := Pick(r, []int{2, 30, 100, 280})
			fmt.Fprintf(&b, "nfo%d := [1, 2, 3].fold(7) |acc: Int, a: Int|: Int -> acc * 3 + plain_depth(a * %d)\nvar nti%d = 0\n3.times |t: Int| -> nti%d = nti%d + plain_depth(t * %d + 1)\nprintln \"nfold=${nfo%d} ${nti%d}\"\n", i, d, i, i, i, d, i, i)
			frags = append(frags, fmt.Sprintf("nativefold%d", d))
		case 10:
			d := Pick(r, []int{2, 30, 150, 400})
			fmt.Fprintf(&b, "println \"genacc=${drain_acc(%d, %d)}\"\n", r.Range(1, 6), d)
			frags = append(frags, fmt.Sprintf("genacc%d", d))
		case 11:
			d := Pick(r, []int{2, 30, 150})
			fmt.Fprintf(&b, "println \"gennest=${drain_nested(%d, %d)}\"\n", r.Range(1, 8), d)
			frags = append(frags, fmt.Sprintf("gennested%d", d))
		case 12:
			d := Pick(r, []int{2, 30, 150, 400})
			fmt.Fprintf(&b, "pa%d := aw_acc(%d, %d)\npb%d := aw_acc(%d, %d)\nprintln \"awacc=${await pa%d} ${await pb%d}\"\n", i, r.Range(1, 5), d, i, r.Range(1, 5), d+3, i, i)
			frags = append(frags, fmt.Sprintf("awacc%d", d))
		case 8:
			d := Pick(r, []int{3, 40, 200, 450})
			fmt.Fprintf(&b, "println \"mut=${mutate_after(%d, %d)}\"\n", d, r.Intn(9))
			frags = append(frags, fmt.Sprintf("mutate%d", d))
		case 9:
			d := Pick(r, []int{5, 60, 300})
			fmt.Fprintf(&b, "println \"nest=${nested_mutate(%d, %d)}\"\n", r.Range(1, 12), d)
			frags = append(frags, fmt.Sprintf("nestedmutate%d", d))
		case 0:
			d := Pick(r, []int{5, 30, 120, 400, 900})
			fmt.Fprintf(&b, "println \"deep=${deep(%d, 0)}\"\n", d)
			frags = append(frags, fmt.Sprintf("deep%d", d))
		case 1:
			d := Pick(r, []int{3, 20, 90, 300})
			fmt.Fprintf(&b, "println \"mix=${mix(%d)}\"\n", d)
			frags = append(frags, fmt.Sprintf("mix%d", d))
		case 2:
			d := Pick(r, []int{4, 25, 150, 500})
			fmt.Fprintf(&b, "var wl%d: List[Int] = []\nprintln \"walk=${walk(%d, wl%d)} ${sum_all(wl%d)}\"\n", i, d, i, i)
			frags = append(frags, fmt.Sprintf("walk%d", d))
		case 3:
			d := r.Range(3, 9)
			fmt.Fprintf(&b, "println \"aw=${await aw(%d)}\"\n", d)
			frags = append(frags, fmt.Sprintf("async%d", d))
		case 4:
			k2 := Pick(r, []int{10, 80, 300, 900})
			var items []string
			for j := 0; j < k2; j++ {
				items = append(items, fmt.Sprintf("%d + %d", j, i))
			}
			fmt.Fprintf(&b, "println \"lit=${sum_all([%s])}\"\n", strings.Join(items, ", "))
			frags = append(frags, fmt.Sprintf("literal%d", k2))
		case 5:
			k2 := Pick(r, []int{20, 200})
			fmt.Fprintf(&b, "sy%d := 0\nwhile sy%d < %d\n  \"ksym_%d_${sy%d}\".to_symbol\n  sy%d = sy%d + 1\nend\nprintln \"sym=${sy%d}\"\n", i, i, k2, i, i, i, i, i)
			frags = append(frags, fmt.Sprintf("symbols%d", k2))
		case 6:
			fmt.Fprintf(&b, "println \"wide=${wide(1, 2, 3, 4, 5, 6, 7, %d)}\"\n", r.Range(0, 9))
			frags = append(frags, "wide")
		default:
			d := Pick(r, []int{2, 10, 40})
			fmt.Fprintf(&b, "gg%d := gen(%d)\ngs%d := 0\nfor v in gg%d\n  gs%d = gs%d + v + deep(%d, v)\nend\nprintln \"gen=${gs%d}\"\n", i, d, i, i, i, i, d, i)
			frags = append(frags, fmt.Sprintf("genloop%d", d))
		}
	}
	return b.String(), frags
}

type c10Engine struct{}

func init() { register(&c10Engine{}) }

func (*c10Engine) Name() string     { return "C10" }
func (*c10Engine) Property() string { return "C10" }

var (
	defInitStack = vm.INIT_VALUE_STACK_SIZE
	defMaxStack  = vm.MAX_VALUE_STACK_SIZE
	defCallStack = vm.CALL_STACK_SIZE
	defPresize   = value.SYMBOL_TABLE_INITIAL_SIZE
)

func (*c10Engine) Generate(seed uint64, tier string) *Case {
	r := NewRand(seed)
	src, frags := genKnobProgram(r)
	p := knobParams{Src: src, Fragments: frags}
	// log-uniform initial stack: from a handful of slots up to the default and beyond
	// log-uniform from 64 slots up; stacks below 64 slots (the known finding: a frame can
	// overrun the stack, which corrupts memory) are drawn in 3% of the cases only, and the
	// worker process is recycled after each of them so that a corrupted heap cannot taint
	// the cases that would follow in the same process
	p.InitStack = 128 << uint(r.Intn(6)) // 128 .. 4096
	p.InitStack += r.Intn(p.InitStack)
	if r.Chance(0.06) {
		p.InitStack = r.Range(64, 127)
	}
	if r.Chance(0.03) {
		p.InitStack = r.Range(16, 63)
	}
	p.MaxStack = Pick(r, []int{defMaxStack, defMaxStack, 1 << 22, 1 << 20, 1 << 17})
	p.CallStack = Pick(r, []int{defCallStack, defCallStack, 4096, 2 * defCallStack, 64, 300})
	p.Pool = r.Range(1, 8)
	p.Queue = Pick(r, []int{256, 300, 512, 4096})
	p.Presize = Pick(r, []int{0, 1, 128, 4096})
	if r.Chance(0.5) {
		n := r.Range(1, 5)
		span := 3000
		if len(frags) == 1 && frags[0] == "bodies" {
			span = 500
		}
		for i := 0; i < n; i++ {
			p.ForceGrow = append(p.ForceGrow, r.Intn(span))
		}
	}
	b, _ := json.Marshal(&p)
	sc := drawSched(r, 100_000)
	sc.MaxTicks = 80_000_000
	return &Case{Params: b, Sched: sc}
}

func stackLimitReport(s string) bool {
	return strings.Contains(s, "call stack overflow") || strings.Contains(s, "maximum value stack size exceeded") || strings.Contains(s, "stack overflow")
}

type knobOutcome struct {
	out, err string
	res      simhook.Result
	grows    int
}

func runWithKnobs(t *testing.T, cfg simhook.Config, chunkSrc string, initStack, maxStack, callStack, pool, queue, presize int, forceGrow []int) (knobOutcome, string) {
	oi, om, oc, op := vm.INIT_VALUE_STACK_SIZE, vm.MAX_VALUE_STACK_SIZE, vm.CALL_STACK_SIZE, value.SYMBOL_TABLE_INITIAL_SIZE
	vm.INIT_VALUE_STACK_SIZE, vm.MAX_VALUE_STACK_SIZE, vm.CALL_STACK_SIZE, value.SYMBOL_TABLE_INITIAL_SIZE = initStack, maxStack, callStack, presize
	defer func() {
		vm.INIT_VALUE_STACK_SIZE, vm.MAX_VALUE_STACK_SIZE, vm.CALL_STACK_SIZE, value.SYMBOL_TABLE_INITIAL_SIZE = oi, om, oc, op
	}()
	resetElk()
	chunk, diags, failed, panicked := compileElk(chunkSrc, false)
	if panicked != "" || failed {
		return knobOutcome{}, "workload rejected: " + panicked + diags
	}
	calls := 0
	forced := 0
	want := map[int]bool{}
	for _, k := range forceGrow {
		want[k] = true
	}
	cfg.FailHook = func(name string) bool {
		if name != "vm.grow" {
			return false
		}
		calls++
		if want[calls] && forced < 6 {
			forced++
			return true
		}
		return false
	}
	o := runElk(t, cfg, chunk, elkRunOpts{Pool: pool, Queue: queue})
	return knobOutcome{out: o.Out, err: o.Err, res: o.Res, grows: forced}, ""
}

func (*c10Engine) Execute(t *testing.T, c *Case) *Verdict {
	var p knobParams
	if err := json.Unmarshal(c.Params, &p); err != nil {
		return &Verdict{Verdict: "harness_error", Detail: err.Error()}
	}
	ref, rej := runWithKnobs(t, simhook.Config{Strategy: "nonpreemptive", Seed: 1, MaxTicks: 80_000_000}, p.Src, defInitStack, defMaxStack, defCallStack, 4, 256, defPresize, nil)
	if rej != "" {
		return &Verdict{Verdict: "harness_error", Class: "workload_rejected", Detail: rej + "\n" + p.Src}
	}
	v := &Verdict{Verdict: "ok", Property: "C10", Exec: 2}
	if ref.res.Outcome != "ok" {
		if ref.res.Outcome == "gopanic" && stackLimitReport(ref.res.PanicVal) {
			v.Verdict, v.Class = "inconclusive", "reference_hits_stack_limit"
			return v
		}
		v.Verdict, v.Class = "inconclusive", "reference_"+ref.res.Outcome
		v.Detail = ref.res.PanicVal + "\n" + trimStack(ref.res.PanicStack) + "\n" + p.Src
		return v
	}
	got, _ := runWithKnobs(t, c.Sched, p.Src, p.InitStack, p.MaxStack, p.CallStack, p.Pool, p.Queue, p.Presize, p.ForceGrow)
	v.Res = &got.res
	v.Hash = hashStrings(string(c.Params), hashDecisions(got.res.Decisions))
	v.Nontrivial = true
	v.Extra = map[string]int64{"forced_reallocations": int64(got.grows), "init_stack_below_default": b2i(p.InitStack < defInitStack)}
	if p.InitStack < 128 {
		// below 64 slots frames are known to overrun the stack; up to about twice that a large
		// frame still can: never share a process with the cases that follow
		v.Extra["recycle_worker"] = 1
	}
	for _, f := range p.Fragments {
		v.Extra["fragment_"+strings.TrimRight(f, "0123456789")]++
	}
	knobs := fmt.Sprintf("init_stack=%d slots, max_stack=%d, call_stack=%d frames, pool=%d, queue=%d, presize=%d, forced reallocations at calls %v (%d fired)", p.InitStack, p.MaxStack, p.CallStack, p.Pool, p.Queue, p.Presize, p.ForceGrow, got.grows)
	v.Sample = map[string]any{"knobs": knobs, "fragments": p.Fragments, "output": got.out}
	bad := func(class, format string, a ...any) *Verdict {
		v.Verdict, v.Class, v.Sig = "violation", class, class
		if p.InitStack < 64 && (class == "gopanic" || class == "result") {
			// the value stack only grows at calls and only when it is more than 70% full: a
			// frame that needs more than the remaining 30% of a tiny stack overruns it
			v.Sig = "tiny-initial-stack"
		}
		v.Detail = fmt.Sprintf(format, a...) + "\nknobs: " + knobs + "\nreference output (default sizes):\n" + ref.out + "\n--- program:\n" + p.Src
		return v
	}
	switch got.res.Outcome {
	case "ok":
	case "gopanic":
		if stackLimitReport(got.res.PanicVal) {
			v.Extra["stack_limit_reported"] = 1
			return v // excluded by the property
		}
		return bad("gopanic", "Go panic under a non-default sizing configuration: %s\n%s", got.res.PanicVal, trimStack(got.res.PanicStack))
	case "harness_panic":
		v.Verdict, v.Class, v.Detail = "harness_error", "harness_panic", got.res.PanicVal
		return v
	default:
		return bad(got.res.Outcome, "program did not finish under a non-default sizing configuration (%s); state: %s", got.res.Outcome, got.res.State)
	}
	if got.res.TokenViolations > 0 {
		v.Verdict, v.Class, v.Detail = "harness_error", "token", got.res.FirstViolation
		return v
	}
	if stackLimitReport(got.err) || stackLimitReport(got.out) {
		v.Extra["stack_limit_reported"] = 1
		return v
	}
	if got.out != ref.out || got.err != ref.err {
		return bad("result", "output or result differs from the default configuration\nperturbed output:\n%s\nerror: %q (reference error %q)", got.out, got.err, ref.err)
	}
	return v
}

// DeathSig classifies the death of a worker process that was running c.
func (*c10Engine) DeathSig(c *Case) string {
	var p knobParams
	if json.Unmarshal(c.Params, &p) == nil && p.InitStack < 64 {
		return "tiny-initial-stack"
	}
	return "process_death"
}

func (*c10Engine) Shrink(c *Case) []*Case {
	var p knobParams
	if json.Unmarshal(c.Params, &p) != nil {
		return nil
	}
	var out []*Case
	mk := func(q knobParams) {
		b, _ := json.Marshal(&q)
		cc := *c
		cc.Params = b
		out = append(out, &cc)
	}
	// move each knob back to its default
	if p.InitStack != defInitStack {
		q := p
		q.InitStack = defInitStack
		mk(q)
	}
	if p.MaxStack != defMaxStack {
		q := p
		q.MaxStack = defMaxStack
		mk(q)
	}
	if p.CallStack != defCallStack {
		q := p
		q.CallStack = defCallStack
		mk(q)
	}
	if p.Pool != 4 {
		q := p
		q.Pool = 4
		mk(q)
	}
	if len(p.ForceGrow) > 0 {
		q := p
		q.ForceGrow = p.ForceGrow[1:]
		mk(q)
	}
	// drop a top-level println fragment
	lines := strings.Split(p.Src, "\n")
	for i, l := range lines {
		if strings.HasPrefix(l, "println ") {
			q := p
			q.Src = strings.Join(append(append([]string{}, lines[:i]...), lines[i+1:]...), "\n")
			mk(q)
		}
	}
	return out
}

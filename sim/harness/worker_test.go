package harness

import (
	"bufio"
	"encoding/json"
	"fmt"
	"os"
	"runtime"
	"strconv"
	"strings"
	"testing"
	"time"

	"github.com/elk-language/elk/ext"
	"github.com/elk-language/elk/simhook"
	"github.com/elk-language/elk/types/checker"
	"github.com/elk-language/elk/vm"
)

// ReplayFile is the on-disk form of a violation.
type ReplayFile struct {
	Property  string   `json:"property"`
	Class     string   `json:"class"`
	Sig       string   `json:"sig"`
	Detail    string   `json:"detail"`
	Minimised bool     `json:"minimised"`
	OrigSeed  uint64   `json:"orig_seed"`
	Case      *Case    `json:"case"`
	Notes     []string `json:"notes,omitempty"`
}

type runLine struct {
	I       int      `json:"i"`
	Seed    uint64   `json:"seed"`
	V       *Verdict `json:"v"`
	Case    *Case    `json:"case,omitempty"` // only for violations and samples
	WallUs  int64    `json:"wall_us"`
	StateHs []uint64 `json:"state_hashes,omitempty"`
}

func envInt(name string, def int) int {
	if v := os.Getenv(name); v != "" {
		if n, err := strconv.Atoi(v); err == nil {
			return n
		}
	}
	return def
}

func caseSeed(base uint64, engine string, i int) uint64 {
	h := hashStrings(engine, strconv.FormatUint(base, 10), strconv.Itoa(i))
	return h
}

// kmv keeps the k smallest distinct hashes: a mergeable distinct-count sketch.
type kmv struct {
	k   int
	set map[uint64]struct{}
	max uint64
}

func newKMV(k int) *kmv { return &kmv{k: k, set: map[uint64]struct{}{}} }
func (m *kmv) add(h uint64) {
	h = h*0x9E3779B97F4A7C15 ^ (h >> 29)
	if len(m.set) >= m.k && h >= m.max {
		return
	}
	if _, ok := m.set[h]; ok {
		return
	}
	m.set[h] = struct{}{}
	if len(m.set) > m.k {
		// drop max
		var mx uint64
		for x := range m.set {
			if x > mx {
				mx = x
			}
		}
		delete(m.set, mx)
		mx = 0
		for x := range m.set {
			if x > mx {
				mx = x
			}
		}
		m.max = mx
	} else if h > m.max {
		m.max = h
	}
}
func (m *kmv) values() []uint64 {
	out := make([]uint64, 0, len(m.set))
	for x := range m.set {
		out = append(out, x)
	}
	return out
}

var stateSketch = newKMV(2048)

func execute(t *testing.T, e Engine, c *Case) (v *Verdict) {
	defer func() {
		if r := recover(); r != nil {
			buf := make([]byte, 16<<10)
			n := runtime.Stack(buf, false)
			v = &Verdict{Verdict: "harness_error", Class: "harness_panic", Detail: fmt.Sprintf("%v\n%s", r, buf[:n])}
		}
	}()
	return e.Execute(t, c)
}

// TestWorker is the only entry point of the harness binary.
func TestWorker(t *testing.T) {
	mode := os.Getenv("SIM_MODE")
	if mode == "" {
		t.Skip("SIM_MODE not set")
	}
	LoadLabels(os.Getenv("SIM_LABELS"))
	warmUp(t)
	simhook.TraceOn = os.Getenv("SIM_TRACE") != ""
	switch mode {
	case "explore":
		explore(t)
	case "replay":
		replay(t)
	case "minimise":
		minimise(t)
	case "deathsig":
		deathSig(t)
	default:
		t.Fatalf("unknown SIM_MODE %q", mode)
	}
}

func explore(t *testing.T) {
	eng := engines[os.Getenv("SIM_ENGINE")]
	if eng == nil {
		t.Fatalf("unknown engine %q", os.Getenv("SIM_ENGINE"))
	}
	base, _ := strconv.ParseUint(os.Getenv("SIM_BASE_SEED"), 10, 64)
	from := envInt("SIM_FROM", 0)
	stride := envInt("SIM_STRIDE", 1)
	count := envInt("SIM_COUNT", 1<<30)
	tier := os.Getenv("SIM_TIER")
	deadline := time.Now().Add(time.Duration(envInt("SIM_BUDGET_MS", 60000)) * time.Millisecond)
	maxViol := envInt("SIM_MAX_VIOLATIONS", 5)
	samplesLeft := envInt("SIM_SAMPLES", 2)
	out, err := os.Create(os.Getenv("SIM_OUT"))
	if err != nil {
		t.Fatal(err)
	}
	defer out.Close()
	w := bufio.NewWriterSize(out, 1<<16)
	defer w.Flush()
	enc := json.NewEncoder(w)
	viol := 0
	abandoned := 0
	knownSigs := map[string]bool{}
	for _, k := range strings.Split(os.Getenv("SIM_KNOWN_SIGS"), ",") {
		if k != "" {
			knownSigs[k] = true
		}
	}
	for n := 0; n < count; n++ {
		i := from + n*stride
		if time.Now().After(deadline) {
			break
		}
		seed := caseSeed(base, eng.Name(), i)
		fmt.Fprintf(os.Stderr, "BEGIN %d %d\n", i, seed)
		simhook.Trace = simhook.Trace[:0] // when tracing: the trace of the last case is what gets written
		c := eng.Generate(seed, tier)
		c.Engine = eng.Name()
		c.Seed = seed
		c.Tier = tier
		if dump := os.Getenv("SIM_DUMP_CASE"); dump != "" {
			// written before the case runs: if it kills the process the driver still has its inputs
			if cb, err := json.MarshalIndent(c, "", " "); err == nil {
				os.WriteFile(dump, cb, 0o644)
			}
		}
		t0 := time.Now()
		v := execute(t, eng, c)
		if v.Extra == nil {
			v.Extra = map[string]int64{}
		}
		v.Extra["strategy_"+c.Sched.Strategy]++
		line := runLine{I: i, Seed: seed, V: v, WallUs: time.Since(t0).Microseconds()}
		if v.Verdict != "ok" || v.Crash != nil {
			line.Case = c
			if !(v.Verdict == "violation" && knownSigs[v.Property+"|"+v.Sig]) && v.Verdict != "inconclusive" {
				viol++
			}
		} else if samplesLeft > 0 && v.Nontrivial {
			line.Case = c
			samplesLeft--
		}
		if v.Res != nil {
			abandoned += v.Res.Abandoned
			if line.Case == nil {
				v.Res.Decisions = nil // keep lines small
			}
		}
		if err := enc.Encode(&line); err != nil {
			t.Fatal(err)
		}
		if v.Verdict != "ok" || v.Crash != nil {
			w.Flush()
		}
		if viol >= maxViol {
			break
		}
		if abandoned > 2000 || runtime.NumGoroutine() > 5000 || (v.Extra != nil && v.Extra["recycle_worker"] > 0) {
			// too many leaked goroutines from abandoned runs: let the driver restart us
			w.Flush()
			fmt.Fprintf(os.Stderr, "RECYCLE next=%d\n", n+1)
			enc.Encode(map[string]any{"recycle": true, "next_n": n + 1})
			break
		}
	}
	if tf := os.Getenv("SIM_TRACE"); tf != "" {
		var b strings.Builder
		for _, l := range simhook.Trace {
			if l >= 0 && int(l) < len(labelNames) {
				b.WriteString(labelNames[l])
			} else {
				fmt.Fprint(&b, l)
			}
			b.WriteByte('\n')
		}
		os.WriteFile(tf, []byte(b.String()), 0o644)
	}
	enc.Encode(map[string]any{"sketch": stateSketch.values()})
	fmt.Fprintf(os.Stderr, "DONE\n")
}

// deathSig prints the signature an engine gives to the death of the worker that
// was running the case stored in SIM_REPLAY (a bare Case written by SIM_DUMP_CASE).
func deathSig(t *testing.T) {
	sig := "process_death"
	if b, err := os.ReadFile(os.Getenv("SIM_REPLAY")); err == nil {
		var c Case
		if json.Unmarshal(b, &c) == nil {
			if e, ok := engines[c.Engine].(interface{ DeathSig(*Case) string }); ok {
				sig = e.DeathSig(&c)
			}
		}
	}
	os.WriteFile(os.Getenv("SIM_OUT"), []byte(sig), 0o644)
	fmt.Fprintf(os.Stderr, "DONE\n")
}

func loadReplay(path string) (*ReplayFile, error) {
	b, err := os.ReadFile(path)
	if err != nil {
		return nil, err
	}
	var rf ReplayFile
	if err := json.Unmarshal(b, &rf); err != nil {
		return nil, err
	}
	if rf.Case == nil {
		return nil, fmt.Errorf("replay file has no case")
	}
	return &rf, nil
}

func sameViolation(v *Verdict, prop, class, sig string) bool {
	if v.Crash != nil && v.Crash.Property == prop && v.Crash.Class == class {
		return true
	}
	return v.Verdict == "violation" && v.Property == prop && v.Class == class && (sig == "" || v.Sig == sig)
}

func replay(t *testing.T) {
	rf, err := loadReplay(os.Getenv("SIM_REPLAY"))
	if err != nil {
		t.Fatal(err)
	}
	eng := engines[rf.Case.Engine]
	if eng == nil {
		t.Fatalf("unknown engine %q", rf.Case.Engine)
	}
	fmt.Fprintf(os.Stderr, "BEGIN replay %d\n", rf.Case.Seed)
	v := execute(t, eng, rf.Case)
	res := map[string]any{"v": v, "reproduced": sameViolation(v, rf.Property, rf.Class, rf.Sig)}
	b, _ := json.Marshal(res)
	os.WriteFile(os.Getenv("SIM_OUT"), b, 0o644)
	fmt.Fprintf(os.Stderr, "DONE\n")
}

// minimise shrinks the case of a replay file while the same violation class
// persists. Progress is written after every successful reduction, so a crash
// of this process loses nothing.
func minimise(t *testing.T) {
	rf, err := loadReplay(os.Getenv("SIM_REPLAY"))
	if err != nil {
		t.Fatal(err)
	}
	eng := engines[rf.Case.Engine]
	if eng == nil {
		t.Fatalf("unknown engine %q", rf.Case.Engine)
	}
	outPath := os.Getenv("SIM_OUT")
	deadline := time.Now().Add(time.Duration(envInt("SIM_BUDGET_MS", 60000)) * time.Millisecond)
	cur := rf.Case
	tries := 0
	fails := func(c *Case) (*Verdict, bool) {
		tries++
		fmt.Fprintf(os.Stderr, "BEGIN min %d\n", tries)
		v := execute(t, eng, c)
		return v, sameViolation(v, rf.Property, rf.Class, rf.Sig)
	}
	save := func(c *Case, v *Verdict, note string) {
		out := *rf
		out.Case = c
		out.Minimised = true
		if v != nil {
			out.Detail = v.Detail
			if v.Crash != nil && v.Crash.Property == rf.Property {
				out.Detail = v.Crash.Detail
			}
		}
		out.Notes = append(out.Notes, note)
		b, _ := json.MarshalIndent(&out, "", " ")
		os.WriteFile(outPath, b, 0o644)
	}
	// make sure the schedule is explicit
	v0, ok := fails(cur)
	if !ok {
		save(cur, v0, "not reproduced at start of minimisation")
		fmt.Fprintf(os.Stderr, "DONE\n")
		return
	}
	if !cur.Sched.Replaying && v0.Res != nil {
		c2 := *cur
		c2.Sched = replayConfig(cur.Sched, v0.Res)
		if v, ok := fails(&c2); ok {
			cur = &c2
			v0 = v
		}
	}
	save(cur, v0, "explicit schedule")
	progress := true
	for progress && time.Now().Before(deadline) {
		progress = false
		// 1. workload reductions proposed by the engine
		for _, cand := range eng.Shrink(cur) {
			if time.Now().After(deadline) {
				break
			}
			if v, ok := fails(cand); ok {
				cur = cand
				save(cur, v, "workload reduced")
				progress = true
				break
			}
		}
		if progress {
			continue
		}
		// 2. ddmin over schedule deviations
		if cur.Sched.Replaying && len(cur.Sched.Replay) > 0 {
			n := 2
			ds := cur.Sched.Replay
			for len(ds) > 0 && time.Now().Before(deadline) {
				chunk := (len(ds) + n - 1) / n
				reduced := false
				for start := 0; start < len(ds); start += chunk {
					end := start + chunk
					if end > len(ds) {
						end = len(ds)
					}
					cand := *cur
					cand.Sched.Replay = append(append([]simhook.Decision(nil), ds[:start]...), ds[end:]...)
					if v, ok := fails(&cand); ok {
						ds = cand.Sched.Replay
						c3 := cand
						cur = &c3
						save(cur, v, "schedule reduced")
						reduced = true
						progress = true
						if n > 2 {
							n--
						}
						break
					}
					if time.Now().After(deadline) {
						break
					}
				}
				if !reduced {
					if chunk == 1 {
						break
					}
					n *= 2
					if n > len(ds) {
						n = len(ds)
					}
				}
			}
		}
		// 3. drop faults
		for k := range cur.Sched.Faults {
			cand := *cur
			cand.Sched.Faults = append(append([]simhook.Fault(nil), cur.Sched.Faults[:k]...), cur.Sched.Faults[k+1:]...)
			if v, ok := fails(&cand); ok {
				cur = &cand
				save(cur, v, "fault dropped")
				progress = true
				break
			}
		}
	}
	fmt.Fprintf(os.Stderr, "MINIMISED tries=%d decisions=%d\n", tries, len(cur.Sched.Replay))
	fmt.Fprintf(os.Stderr, "DONE\n")
	_ = strings.TrimSpace
}

// warmUp runs one throw-away check-and-run inside a simulation so that lazy,
// once-per-process initialisation (extension headers, caches) happens before
// the first real case: a case must behave the same whether it is the first or
// the hundredth of its process, otherwise replays in fresh processes diverge.
func warmUp(t *testing.T) {
	defer func() { recover() }()
	resetElk()
	if e := ext.Map["std/test"]; e != nil && e.RuntimeInit != nil {
		e.RuntimeInit()
	}
	src := "import \"std/test\"\nusing Std::Test::*\ndef warm_up_fn(x: Int): Int\n  y := x + 1\n  y\nend\nasync def warm_up_async(x: Int): Int\n  x\nend\nprintln \"${warm_up_fn(1)} ${await warm_up_async(2)}\"\n"
	Simulate(t, simhook.Config{Strategy: "nonpreemptive", Seed: 1, EndOnMain: true, MaxTicks: 50_000_000}, SimOpts{Pool: 1, Queue: 16}, func(e *Env) {
		fn, dl := checker.New().CheckSourceBytecode("warmup", src)
		if dl.IsFailure() || fn == nil {
			return
		}
		v := vm.New(vm.WithStdout(e.Out), vm.WithStderr(e.Out))
		v.InterpretTopLevel(fn)
	})
	resetElk()
}

// Package harness runs real elk code under the simhook scheduler inside a
// testing/synctest bubble. Everything here is compiled against the
// instrumented scratch copy of /repo.
package harness

import (
	"context"
	"encoding/json"
	"fmt"
	"hash/fnv"
	"os"
	"reflect"
	"runtime"
	"strings"
	"sync"
	"testing"
	"testing/synctest"
	"unsafe"

	"github.com/elk-language/elk"
	"github.com/elk-language/elk/env"
	"github.com/elk-language/elk/simhook"
	"github.com/elk-language/elk/value"
	"github.com/elk-language/elk/vm"
)

// Case is one fully determined simulated experiment. It is what a replay file
// contains.
type Case struct {
	Engine string          `json:"engine"`
	Seed   uint64          `json:"seed"`
	Tier   string          `json:"tier,omitempty"`
	Params json.RawMessage `json:"params"`
	Sched  simhook.Config  `json:"sched"`
}

// Verdict is what executing a Case produced.
type Verdict struct {
	Verdict    string `json:"verdict"` // ok | violation | inconclusive | harness_error
	Property   string `json:"property,omitempty"`
	Class      string `json:"class,omitempty"`
	Sig        string `json:"sig,omitempty"`
	Detail     string `json:"detail,omitempty"`
	Nontrivial bool   `json:"nontrivial"`
	Hash       uint64 `json:"hash"`
	// Exec: number of simulated executions this case needed (reference + perturbed ...)
	Exec     int              `json:"exec"`
	Res      *simhook.Result  `json:"res,omitempty"`
	Extra    map[string]int64 `json:"extra,omitempty"`
	Sample   any              `json:"sample,omitempty"`
	Crash    *Verdict         `json:"crash,omitempty"` // a Go panic seen by the C01 monitor, reported under C01
	SymCheck string           `json:"symcheck,omitempty"`
}

// Engine generates, executes and shrinks cases for one property.
type Engine interface {
	Name() string
	Property() string
	Generate(seed uint64, tier string) *Case
	Execute(t *testing.T, c *Case) *Verdict
	Shrink(c *Case) []*Case
}

var engines = map[string]Engine{}

func register(e Engine) { engines[e.Name()] = e }

// ---------------------------------------------------------------- PRNG

type Rand struct{ s uint64 }

func NewRand(seed uint64) *Rand { return &Rand{s: seed*0x9E3779B97F4A7C15 + 0x1234567} }

func (r *Rand) U64() uint64 {
	r.s += 0x9E3779B97F4A7C15
	z := r.s
	z = (z ^ (z >> 30)) * 0xBF58476D1CE4E5B9
	z = (z ^ (z >> 27)) * 0x94D049BB133111EB
	return z ^ (z >> 31)
}
func (r *Rand) Intn(n int) int {
	if n <= 0 {
		return 0
	}
	return int(r.U64() % uint64(n))
}
func (r *Rand) Range(lo, hi int) int { return lo + r.Intn(hi-lo+1) }
func (r *Rand) Bool() bool           { return r.U64()&1 == 1 }
func (r *Rand) Chance(p float64) bool {
	return float64(r.U64()>>11)/float64(1<<53) < p
}
func Pick[T any](r *Rand, xs []T) T { return xs[r.Intn(len(xs))] }

// ---------------------------------------------------------------- output capture

type SyncBuf struct {
	mu     sync.Mutex
	b      strings.Builder
	frozen bool
}

func (s *SyncBuf) Write(p []byte) (int, error) {
	s.mu.Lock()
	defer s.mu.Unlock()
	if s.frozen {
		return len(p), nil // the run is over: output of abandoned tasks that are being drained does not count
	}
	return s.b.Write(p)
}

// Freeze makes the buffer ignore further writes.
func (s *SyncBuf) Freeze() {
	s.mu.Lock()
	s.frozen = true
	s.mu.Unlock()
}
func (s *SyncBuf) String() string {
	s.mu.Lock()
	defer s.mu.Unlock()
	return s.b.String()
}

// ---------------------------------------------------------------- simulation

var labelNames []string

func LoadLabels(path string) {
	b, err := os.ReadFile(path)
	if err != nil {
		return
	}
	var d struct {
		Labels []string `json:"labels"`
	}
	if json.Unmarshal(b, &d) == nil {
		labelNames = d.Labels
	}
}

func labelName(l int32) string {
	if l >= 0 && int(l) < len(labelNames) {
		return labelNames[l]
	}
	if l >= 1_000_000 {
		return fmt.Sprintf("harness:%d", l-1_000_000)
	}
	return fmt.Sprint(l)
}

func init() {
	if p := os.Getenv("ELKPATH"); p != "" {
		env.ELKPATH = p
	}
	simhook.Debug = os.Getenv("SIM_DEBUG") != ""
}

// Env is what a simulated body gets.
type Env struct {
	S      *simhook.Sched
	Ctx    context.Context
	Cancel context.CancelFunc
	Out    *SyncBuf
}

// SimOpts configures Simulate.
type SimOpts struct {
	ResetGlobals bool // call elk.InitGlobalEnvironment() first
	Pool, Queue  int  // default thread pool for the run (Pool 0: none)
}

// Simulate runs body as task 1 under a scheduler configured by cfg and returns
// the scheduler's result. A Go panic in any task ends the run with outcome
// "gopanic". Tasks still parked or blocked at the end are abandoned.
func Simulate(t *testing.T, cfg simhook.Config, opts SimOpts, body func(e *Env)) (res simhook.Result) {
	if opts.ResetGlobals {
		elk.InitGlobalEnvironment()
	}
	func() {
		defer func() {
			if r := recover(); r != nil {
				msg := fmt.Sprint(r)
				if !strings.Contains(msg, "blocked goroutines remain") && !strings.Contains(msg, "deadlock") {
					res.Outcome = "harness_panic"
					res.PanicVal = msg
				}
			}
		}()
		synctest.Test(t, func(t *testing.T) {
			ctx, cancel := context.WithCancel(context.Background())
			value.GLOBAL_ABORTER = value.NewAborter(ctx, cancel)
			out := &SyncBuf{}
			if cfg.StateHook == nil {
				cfg.StateHook = stateSketch.add
			}
			cfg.OnEnd = func() { out.Freeze() }
			cfg.DrainUntil = globalLocksIdle
			s := simhook.NewSched(cfg)
			s.SetLabelNamer(labelName)
			simhook.Install(s)
			defer simhook.Uninstall()
			root := s.RootToken(s.SpawnRoot())
			e := &Env{S: s, Ctx: ctx, Cancel: cancel, Out: out}
			go func() {
				simhook.Start(root)
				defer simhook.Exit(root)
				if opts.Pool > 0 {
					*vm.DefaultThreadPool = *vm.NewThreadPool(opts.Pool, opts.Queue, vm.WithStdout(out), vm.WithStderr(out))
				}
				body(e)
			}()
			res = s.Run()
		})
	}()
	return res
}

// ---------------------------------------------------------------- helpers

func hashStrings(parts ...string) uint64 {
	h := fnv.New64a()
	for _, p := range parts {
		h.Write([]byte(p))
		h.Write([]byte{0})
	}
	return h.Sum64()
}

func hashDecisions(ds []simhook.Decision) string {
	var b strings.Builder
	for _, d := range ds {
		fmt.Fprintf(&b, "%d:%d,", d.Tick, d.Task)
	}
	return b.String()
}

// drawSched draws a scheduling configuration (swarm style).
func drawSched(r *Rand, estLen int64) simhook.Config {
	cfg := simhook.Config{Seed: r.U64()}
	switch k := r.Intn(12); {
	case k >= 10:
		// preempt only in front of lock acquisitions, each with probability 1/SyncProb
		cfg.Strategy = "sync"
		cfg.SyncProb = Pick(r, []int{2, 3, 4, 6, 10, 20})
		cfg.MeanGap = 50
	case k < 4:
		cfg.Strategy = "random"
		cfg.MeanGap = Pick(r, []int{1, 2, 3, 5, 10, 25, 60, 200, 1000})
	case k < 6:
		cfg.Strategy = "pct"
		cfg.PCTDepth = r.Range(1, 4)
		cfg.PCTLen = estLen
		if r.Chance(0.5) {
			// change points at the n-th lock acquisition of the run
			cfg.PCTSync = true
			cfg.PCTDepth = r.Range(2, 4)
			cfg.PCTLen = int64(Pick(r, []int{100, 100, 300, 1000, 3000, 10000}))
		}
	case k < 7:
		cfg.Strategy = "nonpreemptive"
	case k < 8:
		cfg.Strategy = "starve"
		cfg.Victim = int32(r.Range(1, 5))
		cfg.MeanGap = Pick(r, []int{2, 5, 20, 100})
	case k < 9:
		cfg.Strategy = "rr"
		cfg.MeanGap = Pick(r, []int{1, 2, 3, 7, 20})
	default:
		cfg.Strategy = "random"
		cfg.MeanGap = Pick(r, []int{1, 2})
	}
	if r.Chance(0.5) {
		cfg.MapSalt = r.U64() | 1
	}
	return cfg
}

// replayConfig turns the result of a generative run into a replaying config.
func replayConfig(cfg simhook.Config, res *simhook.Result) simhook.Config {
	c := cfg
	c.Replaying = true
	c.Replay = append([]simhook.Decision(nil), res.Decisions...)
	return c
}

// Go starts f as a new scheduler task (harness-side equivalent of an
// instrumented go statement).
func (e *Env) Go(f func()) {
	tok := simhook.Spawn(1_000_001)
	go func() {
		simhook.Start(tok)
		defer simhook.Exit(tok)
		f()
	}()
}

// Wait waits for a WaitGroup the way instrumented code does.
func (e *Env) Wait(wg *sync.WaitGroup) {
	bt := simhook.Block(1_000_002)
	wg.Wait()
	simhook.Unblock(bt, 1_000_002)
}

// Yield is an explicit preemption point for harness client code.
func (e *Env) Yield() { simhook.Y(1_000_003) }

func stackNow() string {
	buf := make([]byte, 16<<10)
	n := runtime.Stack(buf, false)
	return string(buf[:n])
}

// globalLocksIdle reports whether the process-global locks of elk (the global
// symbol table, the Go type map) are free. They are reached through reflection
// because they are unexported; if a field is renamed the probe says "idle".
func globalLocksIdle() bool {
	probe := func(holder any, field string) bool {
		v := reflect.ValueOf(holder)
		if v.Kind() != reflect.Pointer || v.IsNil() {
			return true
		}
		f := v.Elem().FieldByName(field)
		if !f.IsValid() || !f.CanAddr() || f.Type() != reflect.TypeOf(sync.RWMutex{}) {
			return true
		}
		m := (*sync.RWMutex)(unsafe.Pointer(f.UnsafeAddr()))
		if m.TryLock() {
			m.Unlock()
			return true
		}
		return false
	}
	return probe(value.SymbolTable, "mutex")
}

package harness

import (
	"encoding/json"
	"fmt"
	"sort"
	"strings"
	"sync"
	"sync/atomic"
	"testing"
	"time"

	"github.com/anishathalye/porcupine"
	"github.com/elk-language/elk/simhook"
	"github.com/elk-language/elk/value"
)

// E-SYM: symbol interning under arbitrary interleavings (property C26).

type symOp struct {
	Kind string `json:"k"` // add | get | exists | getname | existsid | gadd | gget
	Name string `json:"n,omitempty"`
	ID   int    `json:"id,omitempty"`
}

type symParams struct {
	Preload []string  `json:"preload"`
	Clients [][]symOp `json:"clients"`
	Presize int       `json:"presize"`
}

type symEngine struct{}

func init() { register(&symEngine{}) }

func (*symEngine) Name() string     { return "C26" }
func (*symEngine) Property() string { return "C26" }

func (*symEngine) Generate(seed uint64, tier string) *Case {
	r := NewRand(seed)
	var p symParams
	nPre := r.Intn(4)
	for i := 0; i < nPre; i++ {
		p.Preload = append(p.Preload, fmt.Sprintf("p%d", i))
	}
	alpha := r.Range(2, 5)
	names := append([]string{}, p.Preload...)
	for i := 0; i < alpha; i++ {
		names = append(names, fmt.Sprintf("n%d", i))
	}
	nClients := r.Range(2, 5)
	maxOps := 8
	if tier == "thorough" {
		maxOps = 10
	}
	p.Presize = Pick(r, []int{0, 0, 1, 2, 128})
	for c := 0; c < nClients; c++ {
		nOps := r.Range(2, maxOps)
		var ops []symOp
		for k := 0; k < nOps; k++ {
			switch x := r.Intn(20); {
			case x < 8:
				ops = append(ops, symOp{Kind: "add", Name: Pick(r, names)})
			case x < 11:
				ops = append(ops, symOp{Kind: "get", Name: Pick(r, names)})
			case x < 13:
				ops = append(ops, symOp{Kind: "exists", Name: Pick(r, names)})
			case x < 15:
				ops = append(ops, symOp{Kind: "getname", ID: r.Intn(len(names) + 1)})
			case x < 16:
				ops = append(ops, symOp{Kind: "existsid", ID: r.Range(1, len(names))})
			case x < 19:
				ops = append(ops, symOp{Kind: "gadd", Name: Pick(r, names)})
			default:
				ops = append(ops, symOp{Kind: "gget", Name: Pick(r, names)})
			}
		}
		p.Clients = append(p.Clients, ops)
	}
	b, _ := json.Marshal(&p)
	sc := drawSched(r, 400)
	sc.OptionalYields = true
	if sc.Strategy == "random" && r.Chance(0.7) {
		sc.MeanGap = Pick(r, []int{1, 2, 3, 4, 6})
	}
	return &Case{Params: b, Sched: sc}
}

type symIn struct {
	Kind string
	Name string
	ID   int
}
type symOut struct {
	ID   int
	Name string
	OK   bool
}

var symModel = porcupine.Model{
	Init: func() interface{} { return "" },
	Step: func(state, input, output interface{}) (bool, interface{}) {
		st := state.(string)
		var names []string
		if st != "" {
			names = strings.Split(st, "\x00")
		}
		in := input.(symIn)
		out := output.(symOut)
		idx := -1
		for i, n := range names {
			if n == in.Name {
				idx = i
			}
		}
		switch in.Kind {
		case "add":
			if idx >= 0 {
				return out.ID == idx, state
			}
			if out.ID != len(names) {
				return false, state
			}
			if st == "" {
				return true, in.Name
			}
			return true, st + "\x00" + in.Name
		case "get":
			if idx >= 0 {
				return out.OK && out.ID == idx, state
			}
			return !out.OK, state
		case "exists":
			return out.OK == (idx >= 0), state
		case "getname":
			if in.ID >= 0 && in.ID < len(names) {
				return out.OK && out.Name == names[in.ID], state
			}
			return !out.OK, state
		case "existsid":
			return out.OK == (in.ID > 0 && in.ID < len(names)), state
		}
		return false, state
	},
	Equal: func(a, b interface{}) bool { return a.(string) == b.(string) },
	DescribeOperation: func(input, output interface{}) string {
		return fmt.Sprintf("%+v -> %+v", input, output)
	},
}

var symNonce atomic.Int64

func (e *symEngine) Execute(t *testing.T, c *Case) *Verdict {
	var p symParams
	if err := json.Unmarshal(c.Params, &p); err != nil {
		return &Verdict{Verdict: "harness_error", Detail: err.Error()}
	}
	nonce := symNonce.Add(1)
	gname := func(n string) string { return fmt.Sprintf("vsym%d_%s", nonce, n) }
	var mu sync.Mutex
	var ops []porcupine.Operation
	type gobs struct {
		client int
		kind   string
		name   string
		id     value.Symbol
		ok     bool
		back   string
		backOK bool
	}
	var gops []gobs
	var seq int64
	var postErr string
	oldSize := value.SYMBOL_TABLE_INITIAL_SIZE
	value.SYMBOL_TABLE_INITIAL_SIZE = p.Presize
	res := Simulate(t, c.Sched, SimOpts{}, func(env *Env) {
		table := value.NewSymbolTable()
		for _, n := range p.Preload {
			table.Add(n)
		}
		var wg sync.WaitGroup
		for ci, cops := range p.Clients {
			wg.Add(1)
			ci, cops := ci, cops
			env.Go(func() {
				defer wg.Done()
				for _, op := range cops {
					seq++
					call := seq
					var out symOut
					switch op.Kind {
					case "add":
						out.ID = int(table.Add(op.Name))
					case "get":
						s, ok := table.Get(op.Name)
						out.ID, out.OK = int(s), ok
					case "exists":
						out.OK = table.Exists(op.Name)
					case "getname":
						out.Name, out.OK = table.GetName(value.Symbol(op.ID))
					case "existsid":
						out.OK = table.ExistsId(value.Symbol(op.ID))
					case "gadd":
						s := value.ToSymbol(gname(op.Name))
						back, bok := value.SymbolTable.GetName(s)
						mu.Lock()
						gops = append(gops, gobs{ci, "gadd", op.Name, s, true, back, bok})
						mu.Unlock()
						continue
					case "gget":
						s, ok := value.SymbolTable.Get(gname(op.Name))
						mu.Lock()
						gops = append(gops, gobs{ci, "gget", op.Name, s, ok, "", false})
						mu.Unlock()
						continue
					}
					seq++
					ret := seq
					mu.Lock()
					ops = append(ops, porcupine.Operation{ClientId: ci, Input: symIn{op.Kind, op.Name, op.ID}, Call: call, Output: out, Return: ret})
					mu.Unlock()
				}
			})
		}
		env.Wait(&wg)
		// final cross-check through the public API, sequentially
		seen := map[value.Symbol]string{}
		names := append([]string{}, p.Preload...)
		for _, cops := range p.Clients {
			for _, op := range cops {
				if op.Kind == "add" {
					names = append(names, op.Name)
				}
			}
		}
		for _, n := range names {
			s, ok := table.Get(n)
			if !ok {
				postErr = fmt.Sprintf("name %q added but not found afterwards", n)
				return
			}
			if prev, dup := seen[s]; dup && prev != n {
				postErr = fmt.Sprintf("names %q and %q share symbol %d", prev, n, s)
				return
			}
			seen[s] = n
			back, ok := table.GetName(s)
			if !ok || back != n {
				postErr = fmt.Sprintf("GetName(%d) = %q,%v, want %q", s, back, ok, n)
				return
			}
		}
	})
	value.SYMBOL_TABLE_INITIAL_SIZE = oldSize
	v := &Verdict{Verdict: "ok", Property: "C26", Exec: 1, Res: &res}
	v.Hash = hashStrings(string(c.Params), hashDecisions(res.Decisions))
	v.Nontrivial = res.Switches >= 2 && len(p.Clients) >= 2
	v.Extra = map[string]int64{"lock_waits": res.LockWaits, "ops": int64(len(ops) + len(gops))}
	if res.Outcome != "ok" {
		if res.Outcome == "gopanic" {
			v.Verdict, v.Class, v.Sig = "violation", "gopanic", "gopanic"
			v.Detail = fmt.Sprintf("Go panic in symbol table operation: %s\n%s", res.PanicVal, trimStack(res.PanicStack))
			return v
		}
		if res.Outcome == "harness_panic" {
			v.Verdict, v.Class, v.Detail = "harness_error", "harness_panic", res.PanicVal
			return v
		}
		v.Verdict, v.Class, v.Sig = "violation", res.Outcome, res.Outcome
		v.Detail = fmt.Sprintf("symbol table clients did not finish: %s; state: %s", res.Outcome, res.State)
		return v
	}
	if res.TokenViolations > 0 {
		v.Verdict, v.Class, v.Detail = "harness_error", "token", res.FirstViolation
		return v
	}
	if postErr != "" {
		v.Verdict, v.Class, v.Sig, v.Detail = "violation", "bijection", "bijection", postErr
		return v
	}
	// global table: bijection over what the clients observed
	byName := map[string]value.Symbol{}
	byID := map[value.Symbol]string{}
	for _, g := range gops {
		if g.kind == "gget" && !g.ok {
			continue
		}
		if prev, ok := byName[g.name]; ok && prev != g.id {
			v.Verdict, v.Class, v.Sig = "violation", "bijection", "bijection"
			v.Detail = fmt.Sprintf("global table: name %q mapped to symbols %d and %d", g.name, prev, g.id)
			return v
		}
		byName[g.name] = g.id
		if prev, ok := byID[g.id]; ok && prev != g.name {
			v.Verdict, v.Class, v.Sig = "violation", "bijection", "bijection"
			v.Detail = fmt.Sprintf("global table: symbol %d stands for %q and %q", g.id, prev, g.name)
			return v
		}
		byID[g.id] = g.name
		if g.kind == "gadd" && (!g.backOK || g.back != gname(g.name)) {
			v.Verdict, v.Class, v.Sig = "violation", "bijection", "bijection"
			v.Detail = fmt.Sprintf("global table: GetName(ToSymbol(%q)) = %q,%v", gname(g.name), g.back, g.backOK)
			return v
		}
	}
	// preload is part of the initial state: express it as operations that
	// happened before everything else
	all := make([]porcupine.Operation, 0, len(ops)+len(p.Preload))
	for i, n := range p.Preload {
		all = append(all, porcupine.Operation{ClientId: 1000, Input: symIn{"add", n, 0}, Call: int64(-2*len(p.Preload) + 2*i), Output: symOut{ID: i}, Return: int64(-2*len(p.Preload) + 2*i + 1)})
	}
	all = append(all, ops...)
	sort.SliceStable(all, func(i, j int) bool { return all[i].Call < all[j].Call })
	r := porcupine.CheckOperationsTimeout(symModel, all, 20*time.Second)
	switch r {
	case porcupine.Illegal:
		v.Verdict, v.Class, v.Sig = "violation", "nonlinearizable", "nonlinearizable"
		v.Detail = "history of symbol table operations is not linearizable w.r.t. a sequential intern table:\n" + describeOps(all)
	case porcupine.Unknown:
		v.Verdict, v.Class = "inconclusive", "porcupine_timeout"
	}
	v.Sample = map[string]any{"clients": p.Clients, "preload": p.Preload, "switches": res.Switches, "ticks": res.Ticks, "strategy": c.Sched.Strategy}
	return v
}

func describeOps(ops []porcupine.Operation) string {
	var b strings.Builder
	for _, o := range ops {
		fmt.Fprintf(&b, "  client %d [%d,%d] %+v -> %+v\n", o.ClientId, o.Call, o.Return, o.Input, o.Output)
	}
	return b.String()
}

func trimStack(s string) string {
	lines := strings.Split(s, "\n")
	if len(lines) > 40 {
		lines = lines[:40]
	}
	return strings.Join(lines, "\n")
}

func (e *symEngine) Shrink(c *Case) []*Case {
	var p symParams
	if json.Unmarshal(c.Params, &p) != nil {
		return nil
	}
	var out []*Case
	mk := func(q symParams) {
		b, _ := json.Marshal(&q)
		cc := *c
		cc.Params = b
		out = append(out, &cc)
	}
	// drop a client
	if len(p.Clients) > 1 {
		for i := range p.Clients {
			q := p
			q.Clients = append(append([][]symOp{}, p.Clients[:i]...), p.Clients[i+1:]...)
			mk(q)
		}
	}
	// drop an op
	for i := range p.Clients {
		for k := range p.Clients[i] {
			q := p
			q.Clients = append([][]symOp{}, p.Clients...)
			q.Clients[i] = append(append([]symOp{}, p.Clients[i][:k]...), p.Clients[i][k+1:]...)
			mk(q)
		}
	}
	if len(p.Preload) > 0 {
		q := p
		q.Preload = p.Preload[:len(p.Preload)-1]
		mk(q)
	}
	return out
}

var _ = simhook.Active

// instrument rewrites a scratch copy of the elk repository so that every
// goroutine, lock, blocking operation, select, ordered map range and a dense
// set of preemption points report to simhook. It never touches /repo.
//
// Pass 0 (syntactic): select statements with two or more comm clauses are
// rewritten into PRNG-ordered non-blocking probes followed by the original
// blocking select.
// Pass 1 (typed, go/packages): everything else, as single-line text splices
// at byte offsets, so line numbers are preserved.
package main

import (
	"encoding/json"
	"flag"
	"fmt"
	"go/ast"
	"go/parser"
	"go/token"
	"go/types"
	"os"
	"path/filepath"
	"regexp"
	"sort"
	"strings"

	"golang.org/x/tools/go/packages"
)

type edit struct {
	start, end int
	text       string
	seq        int
}

type fileEdits struct {
	edits []edit
	seq   int
}

func (fe *fileEdits) insert(off int, text string) {
	fe.seq++
	fe.edits = append(fe.edits, edit{off, off, text, fe.seq})
}

func (fe *fileEdits) replace(start, end int, text string) {
	fe.seq++
	fe.edits = append(fe.edits, edit{start, end, text, fe.seq})
}

func (fe *fileEdits) apply(src []byte) ([]byte, error) {
	es := fe.edits
	sort.SliceStable(es, func(i, j int) bool {
		if es[i].start != es[j].start {
			return es[i].start < es[j].start
		}
		// insertions before a replacement that starts at the same offset
		if (es[i].end == es[i].start) != (es[j].end == es[j].start) {
			return es[i].end == es[i].start
		}
		return es[i].seq < es[j].seq
	})
	var out []byte
	pos := 0
	for _, e := range es {
		if e.start < pos {
			return nil, fmt.Errorf("overlapping edits at offset %d", e.start)
		}
		out = append(out, src[pos:e.start]...)
		out = append(out, e.text...)
		pos = e.end
	}
	out = append(out, src[pos:]...)
	return out, nil
}

type Failpoint struct {
	Name    string `json:"name"`
	Pkg     string `json:"pkg"`    // package path suffix
	Func    string `json:"func"`   // function or Type.Method
	Anchor  string `json:"anchor"` // regexp matched against the source text of a statement
	Where   string `json:"where"`  // before | after
	Snippet string `json:"snippet"`
}

type Config struct {
	// Critical: functions that get a yield between every two statements.
	// Entries: "pkgsuffix:Func", "pkgsuffix:Type.Method", "pkgsuffix:Type.*", "pkgsuffix:*"
	Critical []string `json:"critical"`
	// CriticalOptional: like Critical, but the yields (simhook.YO) only count when the
	// run asks for them. Used for the symbol table: its miss path executes more statements
	// than its hit path, and which names are already interned depends on the history of
	// the process, so always-on statement yields there make tick counts history dependent.
	CriticalOptional []string `json:"critical_optional"`
	// NoYield: package path suffixes that get no function-entry/loop yields.
	NoYield    []string    `json:"no_yield"`
	Failpoints []Failpoint `json:"failpoints"`
	// Exports: files to generate: {"pkgdir/file.go": "content"}
	Generate map[string]string `json:"generate"`
}

type Stats struct {
	Level            string         `json:"level"`
	Yields           int            `json:"yields"`
	StmtYields       int            `json:"stmt_yields"`
	Locks            int            `json:"locks"`
	Gos              int            `json:"gos"`
	Blocks           int            `json:"blocks"`
	Selects          int            `json:"selects"`
	SelectsSkipped   int            `json:"selects_skipped"`
	ReflectSelects   int            `json:"reflect_selects"`
	ChanRanges       int            `json:"chan_ranges"`
	MapRanges        int            `json:"map_ranges"`
	MapRangesMissed  int            `json:"map_ranges_uncontrolled"`
	Onces            int            `json:"onces"`
	Failpoints       int            `json:"failpoints"`
	WGParks          int            `json:"wg_parks"`
	Warnings         []string       `json:"warnings"`
	MissingCritical  []string       `json:"missing_critical"`
	MissingFail      []string       `json:"missing_failpoints"`
	Labels           int            `json:"labels"`
	Files            int            `json:"files"`
	CriticalHit      map[string]int `json:"critical_hit"`
	GeneratedDropped bool           `json:"generated_dropped"`
}

var (
	labels []string
	stats  Stats
	root   string
	level  string
	cfg    Config
)

const modPath = "github.com/elk-language/elk"

func newLabel(file string, line int, kind string) int {
	rel := file
	if r, err := filepath.Rel(root, file); err == nil {
		rel = r
	}
	labels = append(labels, fmt.Sprintf("%s:%d:%s", rel, line, kind))
	return len(labels) - 1
}

func warn(format string, a ...any) {
	stats.Warnings = append(stats.Warnings, fmt.Sprintf(format, a...))
}

func main() {
	dir := flag.String("dir", "", "scratch copy of the repository")
	out := flag.String("out", "", "output json (labels + stats)")
	cfgPath := flag.String("config", "", "instrumentation config json")
	lvl := flag.String("level", "full", "full | mid | min")
	flag.Parse()
	root, _ = filepath.Abs(*dir)
	level = *lvl
	stats.Level = level
	stats.CriticalHit = map[string]int{}
	if *cfgPath != "" {
		b, err := os.ReadFile(*cfgPath)
		if err != nil {
			fatal(err)
		}
		if err := json.Unmarshal(b, &cfg); err != nil {
			fatal(err)
		}
	}
	for name, content := range cfg.Generate {
		p := filepath.Join(root, name)
		if _, err := os.Stat(filepath.Dir(p)); err != nil {
			warn("generate: directory of %s missing", name)
			continue
		}
		if err := os.WriteFile(p, []byte(content), 0o644); err != nil {
			fatal(err)
		}
	}
	if err := pass0(); err != nil {
		fatal(err)
	}
	if err := pass1(); err != nil {
		fatal(err)
	}
	stats.Labels = len(labels)
	for _, c := range cfg.Critical {
		if stats.CriticalHit[c] == 0 {
			stats.MissingCritical = append(stats.MissingCritical, c)
		}
	}
	res := map[string]any{"labels": labels, "stats": stats}
	b, _ := json.Marshal(res)
	if err := os.WriteFile(*out, b, 0o644); err != nil {
		fatal(err)
	}
	fmt.Printf("instrument: level=%s files=%d yields=%d stmt_yields=%d locks=%d gos=%d blocks=%d selects=%d(+%d skipped) reflect_selects=%d chan_ranges=%d map_ranges=%d(+%d uncontrolled) onces=%d failpoints=%d labels=%d warnings=%d\n",
		level, stats.Files, stats.Yields, stats.StmtYields, stats.Locks, stats.Gos, stats.Blocks, stats.Selects, stats.SelectsSkipped, stats.ReflectSelects, stats.ChanRanges, stats.MapRanges, stats.MapRangesMissed, stats.Onces, stats.Failpoints, len(labels), len(stats.Warnings))
}

func fatal(err error) {
	fmt.Fprintln(os.Stderr, "instrument:", err)
	os.Exit(1)
}

// ---------------------------------------------------------------- pass 0

func goFiles() ([]string, error) {
	var files []string
	err := filepath.Walk(root, func(p string, info os.FileInfo, err error) error {
		if err != nil {
			return err
		}
		if info.IsDir() {
			n := info.Name()
			if n == ".git" || n == "simhook" || n == "testdata" || (strings.HasPrefix(n, ".") && p != root) {
				return filepath.SkipDir
			}
			return nil
		}
		if strings.HasSuffix(p, ".go") && !strings.HasSuffix(p, "_test.go") {
			files = append(files, p)
		}
		return nil
	})
	return files, err
}

func hasUnlabeledBreak(stmts []ast.Stmt) bool {
	found := false
	var visit func(n ast.Node, depth int)
	visit = func(n ast.Node, depth int) {
		ast.Inspect(n, func(m ast.Node) bool {
			if found || m == nil {
				return false
			}
			switch x := m.(type) {
			case *ast.BranchStmt:
				if x.Tok == token.BREAK && x.Label == nil {
					found = true
				}
			case *ast.ForStmt, *ast.RangeStmt, *ast.SwitchStmt, *ast.TypeSwitchStmt, *ast.SelectStmt, *ast.FuncLit:
				if m != n {
					return false // break inside refers to that statement
				}
			}
			return true
		})
	}
	for _, s := range stmts {
		visit(s, 0)
	}
	return found
}

func terminates(stmts []ast.Stmt) bool {
	if len(stmts) == 0 {
		return false
	}
	switch x := stmts[len(stmts)-1].(type) {
	case *ast.ReturnStmt:
		return true
	case *ast.ExprStmt:
		if c, ok := x.X.(*ast.CallExpr); ok {
			if id, ok := c.Fun.(*ast.Ident); ok && id.Name == "panic" {
				return true
			}
		}
	case *ast.BranchStmt:
		return x.Tok == token.GOTO || x.Tok == token.CONTINUE || (x.Tok == token.BREAK && x.Label != nil)
	}
	return false
}

func containsSelect(n ast.Node) bool {
	found := false
	ast.Inspect(n, func(m ast.Node) bool {
		if m == nil || found {
			return false
		}
		if _, ok := m.(*ast.SelectStmt); ok && m != n {
			found = true
		}
		return true
	})
	return found
}

func pass0() error {
	if level == "min" {
		return nil
	}
	files, err := goFiles()
	if err != nil {
		return err
	}
	for _, fname := range files {
		src, err := os.ReadFile(fname)
		if err != nil {
			return err
		}
		if !strings.Contains(string(src), "select") {
			continue
		}
		fset := token.NewFileSet()
		f, err := parser.ParseFile(fset, fname, src, parser.ParseComments)
		if err != nil {
			return fmt.Errorf("pass0 parse %s: %v", fname, err)
		}
		fe := &fileEdits{}
		off := func(p token.Pos) int { return fset.PositionFor(p, false).Offset }
		txt := func(a, b token.Pos) string { return string(src[off(a):off(b)]) }
		// labelled selects cannot be wrapped
		labelled := map[ast.Stmt]bool{}
		ast.Inspect(f, func(n ast.Node) bool {
			if l, ok := n.(*ast.LabeledStmt); ok {
				labelled[l.Stmt] = true
			}
			return true
		})
		// selects nested in a loop of the same function
		inLoop := map[ast.Stmt]bool{}
		var markLoops func(n ast.Node, loop bool)
		markLoops = func(n ast.Node, loop bool) {
			ast.Inspect(n, func(m ast.Node) bool {
				if m == nil || m == n {
					return true
				}
				switch x := m.(type) {
				case *ast.FuncLit:
					markLoops(x.Body, false)
					return false
				case *ast.ForStmt:
					markLoops(x.Body, true)
					return false
				case *ast.RangeStmt:
					markLoops(x.Body, true)
					return false
				case *ast.SelectStmt:
					if loop {
						inLoop[x] = true
					}
				}
				return true
			})
		}
		markLoops(f, false)
		ast.Inspect(f, func(n ast.Node) bool {
			sel, ok := n.(*ast.SelectStmt)
			if !ok {
				return true
			}
			var comm []*ast.CommClause
			var def *ast.CommClause
			for _, c := range sel.Body.List {
				cc := c.(*ast.CommClause)
				if cc.Comm == nil {
					def = cc
				} else {
					comm = append(comm, cc)
				}
			}
			if len(comm) < 2 {
				return true // no choice among ready cases to determinise
			}
			_ = def
			skip := labelled[sel] || containsSelect(sel)
			allTerm := true
			for _, c := range sel.Body.List {
				cc := c.(*ast.CommClause)
				if hasUnlabeledBreak(cc.Body) {
					skip = true
				}
				if !terminates(cc.Body) {
					allTerm = false
				}
			}
			if skip {
				stats.SelectsSkipped++
				warn("select at %s not determinised", fset.Position(sel.Pos()))
				return true
			}
			line := fset.Position(sel.Pos()).Line
			l := newLabel(fname, line, "select")
			var b strings.Builder
			unb := fmt.Sprintf("simhook.Unblock(__simbt%d, %d);", l, l)
			fmt.Fprintf(&b, "__simbt%d := simhook.Block(%d); ", l, l)
			hasSend := false
			for _, cc := range comm {
				if _, ok := cc.Comm.(*ast.SendStmt); ok {
					hasSend = true
				}
			}
			if hasSend {
				if inLoop[sel] {
					warn("select with send clause inside a loop at %s: no panic guard", fset.Position(sel.Pos()))
				} else {
					fmt.Fprintf(&b, "defer simhook.Guard(__simbt%d, %d); ", l, l)
				}
			}
			if !allTerm {
				fmt.Fprintf(&b, "__sel%d: for { ", l)
			}
			fmt.Fprintf(&b, "for _, __si%d := range simhook.SelOrder(%d, %d) { switch __si%d {", l, l, len(comm), l)
			for i, cc := range comm {
				body := ""
				if len(cc.Body) > 0 {
					body = txt(cc.Body[0].Pos(), cc.Body[len(cc.Body)-1].End())
				}
				brk := ""
				if !allTerm {
					brk = fmt.Sprintf("\nbreak __sel%d", l)
				}
				fmt.Fprintf(&b, "\ncase %d:\nselect {\ncase %s: %s\n%s%s\ndefault:\n}", i, txt(cc.Comm.Pos(), cc.Comm.End()), unb, body, brk)
			}
			b.WriteString("\n} }\n")
			fe.insert(off(sel.Pos()), b.String())
			// resync line numbers for the original select
			fe.insert(off(sel.Pos()), fmt.Sprintf("//line %s:%d\n", fname, line))
			fe.insert(off(sel.Pos())+len("select"), " /*simsel*/")
			for _, c := range sel.Body.List {
				cc := c.(*ast.CommClause)
				fe.insert(off(cc.Colon)+1, " "+unb)
			}
			if !allTerm {
				endLine := fset.Position(sel.End()).Line
				fe.insert(off(sel.End()), fmt.Sprintf("\nbreak __sel%d }\n//line %s:%d\n", l, fname, endLine))
			}
			stats.Selects++
			return true
		})
		if len(fe.edits) == 0 {
			continue
		}
		out, err := fe.apply(src)
		if err != nil {
			return fmt.Errorf("%s: %v", fname, err)
		}
		out = addImport(out)
		if err := os.WriteFile(fname, out, 0o644); err != nil {
			return err
		}
	}
	return nil
}

var pkgClause = regexp.MustCompile(`(?m)^package\s+\w+`)

func addImport(src []byte) []byte {
	if strings.Contains(string(src), `simhook "`+modPath+`/simhook"`) {
		return src
	}
	loc := pkgClause.FindIndex(src)
	if loc == nil {
		return src
	}
	ins := `; import simhook "` + modPath + `/simhook"`
	out := append([]byte{}, src[:loc[1]]...)
	out = append(out, ins...)
	out = append(out, src[loc[1]:]...)
	return out
}

// ---------------------------------------------------------------- pass 1

type fileCtx struct {
	pkg   *packages.Package
	file  *ast.File
	fname string
	src   []byte
	fe    *fileEdits
	used  bool
	tmp   int
}

func (c *fileCtx) off(p token.Pos) int { return c.pkg.Fset.PositionFor(p, false).Offset }
func (c *fileCtx) line(p token.Pos) int {
	return c.pkg.Fset.Position(p).Line
}
func (c *fileCtx) text(n ast.Node) string { return string(c.src[c.off(n.Pos()):c.off(n.End())]) }
func (c *fileCtx) label(p token.Pos, kind string) int {
	return newLabel(c.pkg.Fset.Position(p).Filename, c.line(p), kind)
}
func (c *fileCtx) insert(p token.Pos, text string) {
	c.fe.insert(c.off(p), text)
	c.used = true
}
func (c *fileCtx) insertOff(off int, text string) {
	c.fe.insert(off, text)
	c.used = true
}

func pkgMatches(pkgPath, suffix string) bool {
	rel := strings.TrimPrefix(strings.TrimPrefix(pkgPath, modPath), "/")
	return rel == suffix
}

func noYield(pkgPath string) bool {
	for _, s := range cfg.NoYield {
		if pkgMatches(pkgPath, s) {
			return true
		}
	}
	return false
}

func recvTypeName(fd *ast.FuncDecl) string {
	if fd.Recv == nil || len(fd.Recv.List) == 0 {
		return ""
	}
	t := fd.Recv.List[0].Type
	for {
		switch x := t.(type) {
		case *ast.StarExpr:
			t = x.X
		case *ast.IndexExpr:
			t = x.X
		case *ast.IndexListExpr:
			t = x.X
		case *ast.ParenExpr:
			t = x.X
		case *ast.Ident:
			return x.Name
		default:
			return ""
		}
	}
}

func criticalKey(pkgPath string, fd *ast.FuncDecl) string {
	rel := strings.TrimPrefix(strings.TrimPrefix(pkgPath, modPath), "/")
	name := fd.Name.Name
	recv := recvTypeName(fd)
	cands := []string{rel + ":*"}
	if recv != "" {
		cands = append(cands, rel+":"+recv+"."+name, rel+":"+recv+".*")
	} else {
		cands = append(cands, rel+":"+name)
	}
	for _, c := range cfg.Critical {
		for _, k := range cands {
			if c == k {
				return c
			}
		}
	}
	for _, c := range cfg.CriticalOptional {
		for _, k := range cands {
			if c == k {
				optionalKeys[c] = true
				return c
			}
		}
	}
	return ""
}

var optionalKeys = map[string]bool{}

func simpleExpr(e ast.Expr) bool {
	switch x := e.(type) {
	case *ast.Ident:
		return true
	case *ast.SelectorExpr:
		return simpleExpr(x.X)
	case *ast.StarExpr:
		return simpleExpr(x.X)
	case *ast.ParenExpr:
		return simpleExpr(x.X)
	case *ast.UnaryExpr:
		return x.Op == token.AND && simpleExpr(x.X)
	case *ast.IndexExpr:
		return simpleExpr(x.X) && simpleExpr(x.Index)
	case *ast.BasicLit:
		return true
	}
	return false
}

func syncMethod(info *types.Info, sel *ast.SelectorExpr) (recv string, name string, promoted bool, ok bool) {
	s := info.Selections[sel]
	if s == nil {
		return
	}
	fn, isFn := s.Obj().(*types.Func)
	if !isFn || fn.Pkg() == nil || fn.Pkg().Path() != "sync" {
		return
	}
	sig := fn.Type().(*types.Signature)
	if sig.Recv() == nil {
		return
	}
	rt := sig.Recv().Type()
	if p, isPtr := rt.(*types.Pointer); isPtr {
		rt = p.Elem()
	}
	if named, isNamed := rt.(*types.Named); isNamed {
		recv = named.Obj().Name()
	} else {
		return
	}
	return recv, fn.Name(), len(s.Index()) > 1, true
}

func isPointer(t types.Type) bool {
	if t == nil {
		return false
	}
	_, ok := t.Underlying().(*types.Pointer)
	return ok
}

func isChan(t types.Type) bool {
	if t == nil {
		return false
	}
	_, ok := t.Underlying().(*types.Chan)
	if ok {
		return true
	}
	// type parameter whose core type is a channel
	if tp, isTP := t.(*types.TypeParam); isTP {
		if u := coreType(tp); u != nil {
			_, ok := u.(*types.Chan)
			return ok
		}
	}
	return false
}

func coreType(tp *types.TypeParam) types.Type {
	iface, ok := tp.Constraint().Underlying().(*types.Interface)
	if !ok {
		return nil
	}
	var u types.Type
	for i := 0; i < iface.NumEmbeddeds(); i++ {
		switch e := iface.EmbeddedType(i).(type) {
		case *types.Union:
			for j := 0; j < e.Len(); j++ {
				tu := e.Term(j).Type().Underlying()
				if u == nil {
					u = tu
				}
			}
		default:
			if u == nil {
				u = e.Underlying()
			}
		}
	}
	return u
}

func pkgFuncCall(info *types.Info, call *ast.CallExpr, pkg, name string) bool {
	sel, ok := call.Fun.(*ast.SelectorExpr)
	if !ok {
		return false
	}
	obj := info.Uses[sel.Sel]
	fn, ok := obj.(*types.Func)
	if !ok || fn.Pkg() == nil {
		return false
	}
	return fn.Pkg().Path() == pkg && fn.Name() == name
}

// findBlocking looks for receive expressions / reflect.Select / time.Sleep /
// WaitGroup.Wait calls in the expressions of a simple statement (not
// descending into function literals).
func (c *fileCtx) findBlocking(n ast.Node) (kind string, reflSel *ast.CallExpr) {
	info := c.pkg.TypesInfo
	ast.Inspect(n, func(m ast.Node) bool {
		if m == nil {
			return false
		}
		switch x := m.(type) {
		case *ast.FuncLit:
			return false
		case *ast.UnaryExpr:
			if x.Op == token.ARROW {
				if kind == "" {
					kind = "recv"
				}
			}
		case *ast.CallExpr:
			if pkgFuncCall(info, x, "reflect", "Select") {
				kind = "reflectselect"
				reflSel = x
			} else if pkgFuncCall(info, x, "time", "Sleep") {
				if kind == "" {
					kind = "sleep"
				}
			} else if sel, ok := x.Fun.(*ast.SelectorExpr); ok {
				if recv, name, _, ok := syncMethod(info, sel); ok && recv == "WaitGroup" && name == "Wait" {
					if kind == "" {
						kind = "wgwait"
					}
				}
			}
		}
		return true
	})
	return
}

func (c *fileCtx) lockEdit(st *ast.ExprStmt) bool {
	info := c.pkg.TypesInfo
	call, ok := st.X.(*ast.CallExpr)
	if !ok || len(call.Args) != 0 {
		return false
	}
	sel, ok := call.Fun.(*ast.SelectorExpr)
	if !ok {
		return false
	}
	name := sel.Sel.Name
	if name != "Lock" && name != "RLock" {
		return false
	}
	recvT := info.TypeOf(sel.X)
	// sync.Locker interface
	if s := info.Selections[sel]; s != nil {
		if fn, ok := s.Obj().(*types.Func); ok && fn.Pkg() != nil && fn.Pkg().Path() == "sync" {
			if _, isIface := fn.Type().(*types.Signature).Recv().Type().Underlying().(*types.Interface); isIface {
				if !simpleExpr(sel.X) {
					warn("lock on complex expression at %s", c.pkg.Fset.Position(st.Pos()))
					return false
				}
				c.insert(st.Pos(), fmt.Sprintf("simhook.BeforeLockAny(%s, %d);", c.text(sel.X), c.label(st.Pos(), "lock")))
				stats.Locks++
				return true
			}
		}
	}
	recv, mname, promoted, ok := syncMethod(info, sel)
	if !ok || (recv != "Mutex" && recv != "RWMutex") {
		return false
	}
	if !simpleExpr(sel.X) {
		warn("lock on complex expression at %s", c.pkg.Fset.Position(st.Pos()))
		return false
	}
	x := c.text(sel.X)
	amp := "&"
	if isPointer(recvT) {
		amp = ""
	}
	l := c.label(st.Pos(), "lock")
	switch {
	case promoted && mname == "RLock":
		c.insert(st.Pos(), fmt.Sprintf("simhook.BeforeRLockAny(%s(%s), %d);", amp, x, l))
	case promoted:
		c.insert(st.Pos(), fmt.Sprintf("simhook.BeforeLockAny(%s(%s), %d);", amp, x, l))
	case recv == "Mutex":
		c.insert(st.Pos(), fmt.Sprintf("simhook.BeforeLock(%s(%s), %d);", amp, x, l))
	case mname == "RLock":
		c.insert(st.Pos(), fmt.Sprintf("simhook.BeforeRLock(%s(%s), %d);", amp, x, l))
	default:
		c.insert(st.Pos(), fmt.Sprintf("simhook.BeforeWLock(%s(%s), %d);", amp, x, l))
	}
	stats.Locks++
	return true
}

// goEdit wraps a go statement so that the new goroutine is a scheduler task.
func (c *fileCtx) goEdit(g *ast.GoStmt) {
	l := c.label(g.Pos(), "go")
	if fl, ok := g.Call.Fun.(*ast.FuncLit); ok {
		c.insert(g.Pos(), fmt.Sprintf("__simtok%d := simhook.Spawn(%d);", l, l))
		c.insert(fl.Body.Lbrace+1, fmt.Sprintf("simhook.Start(__simtok%d); defer simhook.Exit(__simtok%d);", l, l))
		stats.Gos++
		return
	}
	info := c.pkg.TypesInfo
	// multi-value argument: leave alone
	if len(g.Call.Args) == 1 {
		if tv, ok := info.Types[g.Call.Args[0]]; ok {
			if _, isTuple := tv.Type.(*types.Tuple); isTuple {
				warn("go statement with tuple argument at %s not wrapped", c.pkg.Fset.Position(g.Pos()))
				return
			}
		}
	}
	var names, vals []string
	for i, a := range g.Call.Args {
		names = append(names, fmt.Sprintf("__simarg%d_%d", l, i))
		vals = append(vals, c.text(a))
	}
	fun := c.text(g.Call.Fun)
	pre := fmt.Sprintf("{ __simtok%d := simhook.Spawn(%d); ", l, l)
	direct := false
	switch f := g.Call.Fun.(type) {
	case *ast.Ident:
		if _, ok := info.Uses[f].(*types.Func); ok {
			direct = true
		}
	case *ast.SelectorExpr:
		if _, ok := info.Uses[f.Sel].(*types.Func); ok {
			if _, isPkg := info.Uses[identOf(f.X)].(*types.PkgName); isPkg {
				direct = true
			}
		}
	}
	if !direct {
		pre += fmt.Sprintf("__simfn%d := %s; ", l, fun)
		fun = fmt.Sprintf("__simfn%d", l)
	}
	if len(names) > 0 {
		pre += strings.Join(names, ", ") + " := " + strings.Join(vals, ", ") + "; "
	}
	args := strings.Join(names, ", ")
	if g.Call.Ellipsis.IsValid() {
		args += "..."
	}
	text := pre + fmt.Sprintf("go func() { simhook.Start(__simtok%d); defer simhook.Exit(__simtok%d); %s(%s) }() }", l, l, fun, args)
	nl := strings.Count(c.text(g), "\n")
	text += strings.Repeat("\n", nl)
	c.fe.replace(c.off(g.Pos()), c.off(g.End()), text)
	c.used = true
	stats.Gos++
}

// wgGoEdit makes the goroutine started by `wg.Go(func() { ... })` (sync.WaitGroup.Go)
// a scheduler task, like the one of a go statement: the runtime starts it inside the sync
// package, where no go statement of the instrumented code sees it.
func (c *fileCtx) wgGoEdit(st *ast.ExprStmt) {
	call, ok := st.X.(*ast.CallExpr)
	if !ok || len(call.Args) != 1 {
		return
	}
	sel, ok := call.Fun.(*ast.SelectorExpr)
	if !ok || sel.Sel.Name != "Go" {
		return
	}
	if recv, name, _, ok := syncMethod(c.pkg.TypesInfo, sel); !ok || recv != "WaitGroup" || name != "Go" {
		return
	}
	fl, ok := call.Args[0].(*ast.FuncLit)
	if !ok {
		warn("WaitGroup.Go with a function value at %s not wrapped", c.pkg.Fset.Position(st.Pos()))
		return
	}
	l := c.label(st.Pos(), "go")
	c.insert(st.Pos(), fmt.Sprintf("__simtok%d := simhook.Spawn(%d);", l, l))
	c.insert(fl.Body.Lbrace+1, fmt.Sprintf("simhook.Start(__simtok%d); defer simhook.Exit(__simtok%d);", l, l))
	stats.Gos++
}

func identOf(e ast.Expr) *ast.Ident {
	id, _ := e.(*ast.Ident)
	return id
}

func (c *fileCtx) processFile() {
	info := c.pkg.TypesInfo
	pkgPath := c.pkg.PkgPath
	yieldPkg := !noYield(pkgPath) && level != "min"
	replaced := map[ast.Node]bool{} // nodes whose text is replaced: no edits inside

	// which functions are critical
	critical := map[*ast.BlockStmt]string{}
	for _, d := range c.file.Decls {
		fd, ok := d.(*ast.FuncDecl)
		if !ok || fd.Body == nil {
			continue
		}
		if k := criticalKey(pkgPath, fd); k != "" && level == "full" {
			critical[fd.Body] = k
			stats.CriticalHit[k]++
		} else if k != "" {
			stats.CriticalHit[k]++
		}
	}

	// failpoints for this package
	var fps []Failpoint
	for _, fp := range cfg.Failpoints {
		if pkgMatches(pkgPath, fp.Pkg) {
			fps = append(fps, fp)
		}
	}

	var funcStack []string
	yieldFn := "simhook.Y"

	var visitStmts func(list []ast.Stmt, crit bool)
	var visitNode func(n ast.Node, crit bool)

	handleStmt := func(st ast.Stmt, crit bool) {
		// statement-level handling for a statement that sits directly in a block
		if crit && !isSimhookStmt(st) {
			if _, isLabeled := st.(*ast.LabeledStmt); !isLabeled {
				c.insert(st.Pos(), fmt.Sprintf("%s(%d);", yieldFn, c.label(st.Pos(), "stmt")))
				stats.StmtYields++
			}
		}
		// failpoints
		if len(fps) > 0 && len(funcStack) > 0 {
			fn := funcStack[len(funcStack)-1]
			for _, fp := range fps {
				if fp.Func != fn {
					continue
				}
				re, err := regexp.Compile(fp.Anchor)
				if err != nil {
					continue
				}
				switch st.(type) {
				case *ast.BlockStmt, *ast.IfStmt, *ast.ForStmt, *ast.RangeStmt, *ast.SwitchStmt, *ast.TypeSwitchStmt, *ast.SelectStmt:
					// match only against the header line
					hdr := c.text(st)
					if i := strings.IndexByte(hdr, '\n'); i >= 0 {
						hdr = hdr[:i]
					}
					if !re.MatchString(hdr) {
						continue
					}
				default:
					if !re.MatchString(c.text(st)) {
						continue
					}
				}
				if fp.Where == "after" {
					c.insert(st.End(), "; "+fp.Snippet)
				} else {
					c.insert(st.Pos(), fp.Snippet+"; ")
				}
				stats.Failpoints++
				hitFail[fp.Name]++
			}
		}
		switch x := st.(type) {
		case *ast.GoStmt:
			c.goEdit(x)
			if _, ok := x.Call.Fun.(*ast.FuncLit); !ok {
				replaced[x] = true
			}
			return
		case *ast.ExprStmt:
			if c.lockEdit(x) {
				return
			}
			c.wgGoEdit(x)
		}
		// blocking operations in simple statements
		switch x := st.(type) {
		case *ast.SendStmt:
			// a send can panic while blocked (channel closed by a peer): the
			// Unblock is deferred inside a closure so that it always runs
			l := c.label(st.Pos(), "send")
			c.insert(st.Pos(), fmt.Sprintf("func() { __simbt%d := simhook.Block(%d); defer simhook.Unblock(__simbt%d, %d); ", l, l, l, l))
			c.insert(st.End(), " }()")
			stats.Blocks++
		case *ast.ExprStmt, *ast.AssignStmt, *ast.DeclStmt, *ast.IncDecStmt:
			kind, rs := c.findBlocking(x)
			if kind == "" {
				break
			}
			if ds, ok := x.(*ast.DeclStmt); ok {
				_ = ds
			}
			l := c.label(st.Pos(), kind)
			if kind == "wgwait" {
				// park in the scheduler until the counter is zero, so that the real Wait
				// below returns at once: synctest does not always treat a WaitGroup.Wait as
				// durably blocking, and a task that blocks non-durably stalls the simulation
				if es, ok := x.(*ast.ExprStmt); ok {
					if call, ok := es.X.(*ast.CallExpr); ok {
						if sel, ok := call.Fun.(*ast.SelectorExpr); ok && simpleExpr(sel.X) {
							recvText := c.text(sel.X)
							if _, isPtr := c.pkg.TypesInfo.TypeOf(sel.X).Underlying().(*types.Pointer); !isPtr {
								recvText = "&" + recvText
							}
							if _, _, promoted, ok := syncMethod(c.pkg.TypesInfo, sel); ok && !promoted {
								c.insert(st.Pos(), fmt.Sprintf("simhook.BeforeWGWait(%s, %d);", recvText, c.label(st.Pos(), "wgpark")))
								stats.WGParks++
							}
						}
					}
				}
			}
			c.insert(st.Pos(), fmt.Sprintf("__simbt%d := simhook.Block(%d);", l, l))
			c.insert(st.End(), fmt.Sprintf("; simhook.Unblock(__simbt%d, %d)", l, l))
			stats.Blocks++
			if rs != nil && len(rs.Args) == 1 {
				c.insert(st.Pos(), fmt.Sprintf("defer simhook.Guard(__simbt%d, %d);", l, l))
				c.insert(rs.Args[0].Pos(), "simhook.DetSelect(")
				c.insert(rs.Args[0].End(), fmt.Sprintf(", %d)", l))
				stats.ReflectSelects++
			}
		case *ast.ReturnStmt, *ast.DeferStmt, *ast.IfStmt, *ast.SwitchStmt, *ast.TypeSwitchStmt:
			// a blocking operation in a header or a return value: cannot be
			// followed by Unblock textually
			var hdr ast.Node
			switch y := x.(type) {
			case *ast.ReturnStmt:
				hdr = y
			case *ast.IfStmt:
				if y.Init != nil {
					if k, _ := c.findBlocking(y.Init); k != "" {
						warn("blocking %s in if-init at %s not wrapped", k, c.pkg.Fset.Position(st.Pos()))
					}
				}
				if k, _ := c.findBlocking(y.Cond); k != "" {
					warn("blocking %s in if-cond at %s not wrapped", k, c.pkg.Fset.Position(st.Pos()))
				}
			case *ast.SwitchStmt:
				if y.Tag != nil {
					if k, _ := c.findBlocking(y.Tag); k != "" {
						warn("blocking %s in switch tag at %s not wrapped", k, c.pkg.Fset.Position(st.Pos()))
					}
				}
			}
			if hdr != nil {
				if k, _ := c.findBlocking(hdr); k != "" {
					warn("blocking %s in return at %s not wrapped", k, c.pkg.Fset.Position(st.Pos()))
				}
			}
		case *ast.SelectStmt:
			// blocking select (probes were generated in pass 0): Block before,
			// Unblock at the top of every clause body
			hasDefault := false
			for _, cl := range x.Body.List {
				if cl.(*ast.CommClause).Comm == nil {
					hasDefault = true
				}
			}
			if hasDefault || strings.HasPrefix(string(c.src[c.off(x.Pos()):]), "select /*simsel*/") {
				break
			}
			l := c.label(st.Pos(), "selectblock")
			c.insert(st.Pos(), fmt.Sprintf("__simbt%d := simhook.Block(%d);", l, l))
			for _, cl := range x.Body.List {
				if _, ok := cl.(*ast.CommClause).Comm.(*ast.SendStmt); ok {
					c.insert(st.Pos(), fmt.Sprintf("defer simhook.Guard(__simbt%d, %d);", l, l))
					break
				}
			}
			for _, cl := range x.Body.List {
				cc := cl.(*ast.CommClause)
				c.insert(cc.Colon+1, fmt.Sprintf(" simhook.Unblock(__simbt%d, %d);", l, l))
			}
			stats.Blocks++
		}
	}

	visitStmts = func(list []ast.Stmt, crit bool) {
		for _, st := range list {
			inner := st
			if ls, ok := st.(*ast.LabeledStmt); ok {
				// yield goes before the label; the rest applies to the inner statement
				if crit {
					c.insert(st.Pos(), fmt.Sprintf("%s(%d);", yieldFn, c.label(st.Pos(), "stmt")))
					stats.StmtYields++
				}
				inner = ls.Stmt
				switch inner.(type) {
				case *ast.ForStmt, *ast.RangeStmt, *ast.SwitchStmt, *ast.SelectStmt, *ast.TypeSwitchStmt, *ast.BlockStmt:
				default:
					handleStmt(inner, false)
				}
				if !replaced[inner] {
					visitNode(inner, crit)
				}
				continue
			}
			handleStmt(st, crit)
			if !replaced[st] {
				visitNode(st, crit)
			}
		}
	}

	loopYield := func(body *ast.BlockStmt, pos token.Pos, kind string) {
		if yieldPkg {
			c.insert(body.Lbrace+1, fmt.Sprintf("simhook.Y(%d);", c.label(pos, kind)))
			stats.Yields++
		}
	}

	rangeEdit := func(x *ast.RangeStmt, labelled bool) bool {
		t := info.TypeOf(x.X)
		if t == nil {
			return false
		}
		// channel
		if isChan(t) {
			if level == "min" && false {
				return false
			}
			l := c.label(x.Pos(), "chanrange")
			hdrStart := c.off(x.For)
			hdrEnd := c.off(x.Body.Lbrace) + 1
			v := "_"
			if x.Key != nil {
				v = c.text(x.Key)
			}
			var text string
			if x.Tok == token.ASSIGN {
				text = fmt.Sprintf("for { var __simok%d bool; __simbt%d := simhook.Block(%d); %s, __simok%d = <-%s; simhook.Unblock(__simbt%d, %d); if !__simok%d { break };", l, l, l, v, l, parenText(c, x.X), l, l, l)
			} else {
				text = fmt.Sprintf("for { __simbt%d := simhook.Block(%d); %s, __simok%d := <-%s; simhook.Unblock(__simbt%d, %d); if !__simok%d { break };", l, l, v, l, parenText(c, x.X), l, l, l)
				if v != "_" {
					text += fmt.Sprintf(" _ = %s;", v)
				}
			}
			if !simpleExpr(x.X) {
				warn("range over complex channel expression at %s: left alone", c.pkg.Fset.Position(x.Pos()))
				return false
			}
			text += strings.Repeat("\n", strings.Count(string(c.src[hdrStart:hdrEnd]), "\n"))
			c.fe.replace(hdrStart, hdrEnd, text)
			c.used = true
			stats.ChanRanges++
			return true
		}
		isMap := false
		if _, ok := t.Underlying().(*types.Map); ok {
			isMap = true
		} else if tp, ok := t.(*types.TypeParam); ok {
			if u := coreType(tp); u != nil {
				_, isMap = u.(*types.Map)
			}
		}
		if !isMap || level == "min" {
			return false
		}
		l := c.label(x.Pos(), "maprange")
		c.insert(x.X.Pos(), "simhook.Range(")
		c.insert(x.X.End(), fmt.Sprintf(", %d)", l))
		stats.MapRanges++
		return false // header kept: the loop yield goes in as usual
	}

	visitNode = func(n ast.Node, crit bool) {
		ast.Inspect(n, func(m ast.Node) bool {
			if m == nil {
				return false
			}
			if replaced[m] {
				return false
			}
			switch x := m.(type) {
			case *ast.FuncLit:
				funcStack = append(funcStack, "")
				if yieldPkg && len(x.Body.List) >= 2 {
					c.insert(x.Body.Lbrace+1, fmt.Sprintf("simhook.Y(%d);", c.label(x.Pos(), "fn")))
					stats.Yields++
				}
				visitStmts(x.Body.List, crit)
				funcStack = funcStack[:len(funcStack)-1]
				return false
			case *ast.BlockStmt:
				if m == n {
					visitStmts(x.List, crit)
					return false
				}
				visitStmts(x.List, crit)
				return false
			case *ast.SwitchStmt:
				if x.Init != nil {
					visitNode(x.Init, crit)
				}
				if x.Tag != nil {
					visitNode(x.Tag, crit)
				}
				for _, cl := range x.Body.List {
					cc := cl.(*ast.CaseClause)
					for _, e := range cc.List {
						visitNode(e, crit)
					}
					visitStmts(cc.Body, crit)
				}
				return false
			case *ast.TypeSwitchStmt:
				if x.Init != nil {
					visitNode(x.Init, crit)
				}
				visitNode(x.Assign, crit)
				for _, cl := range x.Body.List {
					visitStmts(cl.(*ast.CaseClause).Body, crit)
				}
				return false
			case *ast.SelectStmt:
				for _, cl := range x.Body.List {
					visitStmts(cl.(*ast.CommClause).Body, crit)
				}
				return false
			case *ast.ForStmt:
				if x.Init != nil {
					visitNode(x.Init, crit)
				}
				if x.Cond != nil {
					visitNode(x.Cond, crit)
				}
				if x.Post != nil {
					visitNode(x.Post, crit)
				}
				loopYield(x.Body, x.Pos(), "for")
				visitStmts(x.Body.List, crit)
				return false
			case *ast.RangeStmt:
				visitNode(x.X, crit)
				if !rangeEdit(x, false) {
					loopYield(x.Body, x.Pos(), "range")
				} else if yieldPkg {
					// replaced header: the yield goes right after it
					c.insertOff(c.off(x.Body.Lbrace)+1, fmt.Sprintf("simhook.Y(%d);", c.label(x.Pos(), "range")))
					stats.Yields++
				}
				visitStmts(x.Body.List, crit)
				return false
			case *ast.CallExpr:
				// sync.Once.Do
				if sel, ok := x.Fun.(*ast.SelectorExpr); ok && len(x.Args) == 1 {
					if recv, name, _, ok := syncMethod(info, sel); ok && recv == "Once" && name == "Do" && (simpleExpr(sel.X) || isPointer(info.TypeOf(sel.X))) {
						amp := "&"
						if isPointer(info.TypeOf(sel.X)) {
							amp = ""
						}
						l := c.label(x.Pos(), "once")
						// replace "X.Do(" by "simhook.OnceDo(&X, " and ")" by ", l)"
						c.fe.replace(c.off(x.Pos()), c.off(x.Lparen)+1, fmt.Sprintf("simhook.OnceDo(%s(%s), ", amp, c.text(sel.X)))
						c.insertOff(c.off(x.Rparen), fmt.Sprintf(", %d", l))
						c.used = true
						stats.Onces++
						for _, a := range x.Args {
							visitNode(a, crit)
						}
						return false
					}
					// sync.WaitGroup.Go(f)
					if recv, name, _, ok := syncMethod(info, sel); ok && recv == "WaitGroup" && name == "Go" {
						l := c.label(x.Pos(), "wggo")
						if fl, ok := x.Args[0].(*ast.FuncLit); ok {
							// token is created inside the call expression's argument list via a helper closure
							c.insert(x.Args[0].Pos(), fmt.Sprintf("func() func() { __simtok%d := simhook.Spawn(%d); return ", l, l))
							c.insert(fl.Body.Lbrace+1, fmt.Sprintf("simhook.Start(__simtok%d); defer simhook.Exit(__simtok%d);", l, l))
							c.insert(x.Args[0].End(), " }()")
						} else {
							c.insert(x.Args[0].Pos(), fmt.Sprintf("func() func() { __simtok%d := simhook.Spawn(%d); __simfn%d := ", l, l, l))
							c.insert(x.Args[0].End(), fmt.Sprintf("; return func() { simhook.Start(__simtok%d); defer simhook.Exit(__simtok%d); __simfn%d() } }()", l, l, l))
						}
						stats.Gos++
					}
				}
			}
			return true
		})
	}

	for _, d := range c.file.Decls {
		fd, ok := d.(*ast.FuncDecl)
		if !ok || fd.Body == nil {
			continue
		}
		name := fd.Name.Name
		if r := recvTypeName(fd); r != "" {
			name = r + "." + name
		}
		funcStack = append(funcStack, name)
		critKey, crit := critical[fd.Body]
		yieldFn = "simhook.Y"
		if optionalKeys[critKey] {
			yieldFn = "simhook.YO"
		}
		if yieldPkg && len(fd.Body.List) >= 2 {
			c.insert(fd.Body.Lbrace+1, fmt.Sprintf("simhook.Y(%d);", c.label(fd.Pos(), "fn")))
			stats.Yields++
		}
		visitStmts(fd.Body.List, crit)
		funcStack = funcStack[:len(funcStack)-1]
	}
}

var hitFail = map[string]int{}

// isSimhookStmt reports whether st is a statement generated by pass 0 (a call
// into simhook): no yield may be placed in front of it, e.g. between a wake-up
// and the Unblock that follows it.
func isSimhookStmt(st ast.Stmt) bool {
	var call *ast.CallExpr
	switch x := st.(type) {
	case *ast.ExprStmt:
		call, _ = x.X.(*ast.CallExpr)
	case *ast.AssignStmt:
		if len(x.Rhs) == 1 {
			call, _ = x.Rhs[0].(*ast.CallExpr)
		}
	}
	if call == nil {
		return false
	}
	sel, ok := call.Fun.(*ast.SelectorExpr)
	if !ok {
		return false
	}
	id, ok := sel.X.(*ast.Ident)
	return ok && id.Name == "simhook"
}

func parenText(c *fileCtx, e ast.Expr) string {
	return "(" + c.text(e) + ")"
}

func pass1() error {
	pcfg := &packages.Config{
		Mode: packages.NeedName | packages.NeedFiles | packages.NeedCompiledGoFiles | packages.NeedSyntax |
			packages.NeedTypes | packages.NeedTypesInfo | packages.NeedImports | packages.NeedDeps,
		Dir:   root,
		Tests: false,
	}
	pkgs, err := packages.Load(pcfg, "./...")
	if err != nil {
		return err
	}
	// a generated export file that no longer fits the code is dropped rather than failing the build
	genBroken := false
	for _, p := range pkgs {
		for _, e := range p.Errors {
			for name := range cfg.Generate {
				if strings.Contains(e.Pos, name) || strings.Contains(e.Msg, name) {
					genBroken = true
				}
			}
		}
	}
	if genBroken {
		for name := range cfg.Generate {
			os.Remove(filepath.Join(root, name))
			warn("generated file %s does not compile against this tree: dropped", name)
		}
		stats.GeneratedDropped = true
		pkgs, err = packages.Load(pcfg, "./...")
		if err != nil {
			return err
		}
	}
	sort.Slice(pkgs, func(i, j int) bool { return pkgs[i].PkgPath < pkgs[j].PkgPath })
	for _, p := range pkgs {
		if len(p.Errors) > 0 {
			return fmt.Errorf("package %s: %v", p.PkgPath, p.Errors[0])
		}
	}
	for _, p := range pkgs {
		if strings.HasSuffix(p.PkgPath, "/simhook") {
			continue
		}
		for i, f := range p.Syntax {
			if i >= len(p.CompiledGoFiles) {
				continue
			}
			fname := p.CompiledGoFiles[i]
			if !strings.HasPrefix(fname, root) || strings.HasSuffix(fname, "_test.go") {
				continue
			}
			src, err := os.ReadFile(fname)
			if err != nil {
				return err
			}
			c := &fileCtx{pkg: p, file: f, fname: fname, src: src, fe: &fileEdits{}}
			c.processFile()
			if !c.used {
				continue
			}
			out, err := c.fe.apply(src)
			if err != nil {
				return fmt.Errorf("%s: %v", fname, err)
			}
			out = addImport(out)
			if err := os.WriteFile(fname, out, 0o644); err != nil {
				return err
			}
			stats.Files++
		}
	}
	for _, fp := range cfg.Failpoints {
		if hitFail[fp.Name] == 0 {
			stats.MissingFail = append(stats.MissingFail, fp.Name)
		}
	}
	return nil
}

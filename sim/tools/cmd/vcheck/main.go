// vcheck is the driver: it (re)builds the instrumented harness from /repo's
// current working tree, fans seeds out over worker processes, survives worker
// death, confirms and minimises violations by replay in fresh processes, and
// writes the evidence file.
//
// Exit codes: 0 property held on everything explored (KNOWN-FINDING lines
// allowed); 1 with "VIOLATION property=<id> replay=<path>"; 2 build failure,
// harness stall, replay divergence (never with a VIOLATION line).
package main

import (
	"bufio"
	"bytes"
	"crypto/sha256"
	"encoding/hex"
	"encoding/json"
	"flag"
	"fmt"
	"io"
	"os"
	"os/exec"
	"path/filepath"
	"runtime"
	"sort"
	"strconv"
	"strings"
	"sync"
	"syscall"
	"time"
)

// verifDir is /verif unless VCHECK_DIR says otherwise (background runs from a
// snapshot of /verif use their own directory and their own scratch space).
// repoDir is /repo unless VCHECK_REPO says otherwise (sensitivity experiments run
// the checks against a scratch worktree that carries a seeded change; the
// registered commands never set it).
var (
	repoDir    = "/repo"
	verifDir   = "/verif"
	scratchDir = "/tmp/elksim"
)

func init() {
	d := os.Getenv("VCHECK_DIR")
	r := os.Getenv("VCHECK_REPO")
	if d != "" {
		verifDir = d
	}
	if r != "" {
		repoDir = r
	}
	if verifDir != "/verif" || repoDir != "/repo" {
		sum := sha256.Sum256([]byte(verifDir + "|" + repoDir))
		scratchDir = "/tmp/elksim-" + hex.EncodeToString(sum[:4])
	}
}

var goBin string

func findGo() string {
	// go1.26.8 first: go1.25.0 allocates the runtime record that ties a sync.WaitGroup to
	// its synctest bubble without holding the heap's special lock (fixed later), and two
	// tasks that really run at the same time (one entering a blocking operation, the other
	// holding the token) can corrupt the list of those records; the process then spins
	// forever inside the runtime with preemption disabled (seen as stalled workers)
	cands := []string{
		"/opt/veriftools/go1.26.8/bin/go",
		"/root/go/pkg/mod/golang.org/toolchain@v0.0.1-go1.25.0.linux-amd64/bin/go",
	}
	if v := os.Getenv("VCHECK_GO"); v != "" {
		cands = append([]string{v}, cands...)
	}
	for _, c := range cands {
		if _, err := os.Stat(c); err == nil {
			return c
		}
	}
	return "go"
}

func goEnv() []string {
	env := os.Environ()
	env = append(env, "GOTOOLCHAIN=local", "GOFLAGS=-mod=mod", "GOPROXY=off", "GOSUMDB=off",
		"PATH="+filepath.Dir(goBin)+":"+os.Getenv("PATH"))
	return env
}

func die(code int, format string, a ...any) {
	fmt.Fprintf(os.Stderr, "vcheck: "+format+"\n", a...)
	os.Exit(code)
}

// ---------------------------------------------------------------- build

func hashTree(h io.Writer, root string, skip func(rel string, d os.DirEntry) bool) error {
	var files []string
	err := filepath.WalkDir(root, func(p string, d os.DirEntry, err error) error {
		if err != nil {
			return err
		}
		rel, _ := filepath.Rel(root, p)
		if skip(rel, d) {
			if d.IsDir() {
				return filepath.SkipDir
			}
			return nil
		}
		if d.Type().IsRegular() {
			files = append(files, p)
		}
		return nil
	})
	if err != nil {
		return err
	}
	sort.Strings(files)
	for _, f := range files {
		b, err := os.ReadFile(f)
		if err != nil {
			return err
		}
		sum := sha256.Sum256(b)
		rel, _ := filepath.Rel(root, f)
		fmt.Fprintf(h, "%s %x\n", rel, sum)
	}
	return nil
}

func fingerprint() (string, error) {
	h := sha256.New()
	err := hashTree(h, repoDir, func(rel string, d os.DirEntry) bool {
		return rel == ".git" || strings.HasPrefix(rel, ".git/") || rel == "out"
	})
	if err != nil {
		return "", err
	}
	err = hashTree(h, filepath.Join(verifDir, "sim"), func(rel string, d os.DirEntry) bool {
		return false
	})
	if err != nil {
		return "", err
	}
	fmt.Fprintf(h, "go=%s\n", goBin)
	return hex.EncodeToString(h.Sum(nil)), nil
}

func run(dir string, env []string, name string, args ...string) (string, error) {
	cmd := exec.Command(name, args...)
	cmd.Dir = dir
	cmd.Env = env
	var buf bytes.Buffer
	cmd.Stdout = &buf
	cmd.Stderr = &buf
	err := cmd.Run()
	return buf.String(), err
}

func buildTools() error {
	out, err := run(filepath.Join(verifDir, "sim/tools"), goEnv(), goBin, "build", "-o", filepath.Join(verifDir, "bin/instrument"), "./cmd/instrument")
	if err != nil {
		return fmt.Errorf("building instrumenter: %v\n%s", err, out)
	}
	return nil
}

// ensureBuild makes /verif/build/harness.test correspond to /repo's working tree.
func ensureBuild(verbose bool) {
	buildDir := filepath.Join(verifDir, "build")
	os.MkdirAll(buildDir, 0o755)
	os.MkdirAll(scratchDir, 0o755)
	lock, err := os.OpenFile(filepath.Join(buildDir, ".lock"), os.O_CREATE|os.O_RDWR, 0o644)
	if err != nil {
		die(2, "lock: %v", err)
	}
	defer lock.Close()
	if err := syscall.Flock(int(lock.Fd()), syscall.LOCK_EX); err != nil {
		die(2, "flock: %v", err)
	}
	defer syscall.Flock(int(lock.Fd()), syscall.LOCK_UN)

	fp, err := fingerprint()
	if err != nil {
		die(2, "fingerprint: %v", err)
	}
	old, _ := os.ReadFile(filepath.Join(buildDir, "fingerprint"))
	if string(old) == fp {
		if _, err := os.Stat(filepath.Join(buildDir, "harness.test")); err == nil {
			return
		}
	}
	t0 := time.Now()
	if err := buildTools(); err != nil {
		die(2, "%v", err)
	}
	copyDir := filepath.Join(scratchDir, "copy")
	keep := os.Getenv("VCHECK_KEEP") != "" // debugging: leave the instrumented copy and the harness build directory in place
	if !keep {
		defer os.RemoveAll(copyDir)
	}
	var lastErr string
	for _, level := range []string{"full", "mid", "min"} {
		os.RemoveAll(copyDir)
		if out, err := run("/", os.Environ(), "rsync", "-a", "--delete", "--exclude", ".git", "--exclude", "/out", repoDir+"/", copyDir+"/"); err != nil {
			die(2, "copying /repo: %v\n%s", err, out)
		}
		os.MkdirAll(filepath.Join(copyDir, "simhook"), 0o755)
		hooks, _ := filepath.Glob(filepath.Join(verifDir, "sim/simhook/*.go"))
		for _, f := range hooks {
			b, _ := os.ReadFile(f)
			os.WriteFile(filepath.Join(copyDir, "simhook", filepath.Base(f)), b, 0o644)
		}
		env := goEnv()
		// the instrumenter must not run with -mod=mod inside the copy's module
		var ienv []string
		for _, e := range env {
			if !strings.HasPrefix(e, "GOFLAGS=") {
				ienv = append(ienv, e)
			}
		}
		out, err := run(copyDir, ienv, filepath.Join(verifDir, "bin/instrument"),
			"-dir", copyDir, "-out", filepath.Join(buildDir, "labels.json.tmp"),
			"-config", filepath.Join(verifDir, "sim/instrument.json"), "-level", level)
		if err != nil {
			lastErr = fmt.Sprintf("instrument (%s): %v\n%s", level, err, out)
			// does /repo itself compile?
			if o2, e2 := run(repoDir, ienv, goBin, "build", "./..."); e2 != nil {
				die(2, "/repo does not compile:\n%s", o2)
			}
			continue
		}
		if verbose {
			fmt.Fprint(os.Stderr, out)
		}
		// the harness module is built from a scratch copy too, so that go.mod /
		// go.sum rewrites by -mod=mod never touch tracked files
		hdir := filepath.Join(scratchDir, "hbuild")
		os.RemoveAll(hdir)
		os.MkdirAll(hdir, 0o755)
		if !keep {
			defer os.RemoveAll(hdir)
		}
		hsrc, _ := filepath.Glob(filepath.Join(verifDir, "sim/harness/*"))
		for _, f := range hsrc {
			if b, err := os.ReadFile(f); err == nil {
				if filepath.Base(f) == "go.mod" {
					b = bytes.ReplaceAll(b, []byte("/tmp/elksim/copy"), []byte(copyDir))
				}
				os.WriteFile(filepath.Join(hdir, filepath.Base(f)), b, 0o644)
			}
		}
		gosum, _ := os.ReadFile(filepath.Join(repoDir, "go.sum"))
		os.WriteFile(filepath.Join(hdir, "go.sum"), gosum, 0o644)
		out, err = run(hdir, env, goBin, "test", "-c", "-trimpath", "-vet=off", "-tags", "replexport", "-o", filepath.Join(buildDir, "harness.test.tmp"), ".")
		if err != nil {
			// the REPL engine needs the generated export file; without it every other engine still builds
			var out2 string
			out2, err = run(hdir, env, goBin, "test", "-c", "-trimpath", "-vet=off", "-o", filepath.Join(buildDir, "harness.test.tmp"), ".")
			if err == nil {
				fmt.Fprintf(os.Stderr, "vcheck: built without the REPL engine:\n%s\n", tail(out, 10))
			} else {
				out = out2
			}
		}
		if err != nil {
			lastErr = fmt.Sprintf("go test -c (%s): %v\n%s", level, err, tail(out, 60))
			if o2, e2 := run(repoDir, ienv, goBin, "build", "./..."); e2 != nil {
				die(2, "/repo does not compile:\n%s", tail(o2, 60))
			}
			fmt.Fprintf(os.Stderr, "vcheck: instrumented build failed at level %s, degrading\n%s\n", level, tail(out, 20))
			continue
		}
		os.Rename(filepath.Join(buildDir, "harness.test.tmp"), filepath.Join(buildDir, "harness.test"))
		os.Rename(filepath.Join(buildDir, "labels.json.tmp"), filepath.Join(buildDir, "labels.json"))
		os.WriteFile(filepath.Join(buildDir, "fingerprint"), []byte(fp), 0o644)
		fmt.Fprintf(os.Stderr, "vcheck: built harness (instrumentation level %s) in %.0fs\n", level, time.Since(t0).Seconds())
		return
	}
	die(2, "could not build the instrumented harness:\n%s", lastErr)
}

func tail(s string, n int) string {
	lines := strings.Split(strings.TrimRight(s, "\n"), "\n")
	if len(lines) > n {
		lines = lines[len(lines)-n:]
	}
	return strings.Join(lines, "\n")
}

// ---------------------------------------------------------------- worker protocol

type Result struct {
	Outcome         string         `json:"outcome"`
	Ticks           int64          `json:"ticks"`
	Switches        int64          `json:"switches"`
	Decisions       []any          `json:"decisions"`
	Tasks           int            `json:"tasks"`
	LabelHash       uint64         `json:"label_hash"`
	TraceHash       uint64         `json:"trace_hash"`
	FakeNs          int64          `json:"fake_ns"`
	State           string         `json:"state"`
	LockWaits       int64          `json:"lock_waits"`
	RealBlocks      int64          `json:"real_blocks"`
	Uninstr         int64          `json:"uninstrumented_blocks"`
	Selects         int64          `json:"selects"`
	MapRanges       int64          `json:"map_ranges"`
	MapUncontrolled int64          `json:"map_ranges_uncontrolled"`
	FailEvals       int64          `json:"fail_evals"`
	Faults          map[string]int `json:"faults_fired"`
	Probes          map[string]int `json:"probes"`
	Abandoned       int            `json:"abandoned"`
	MaxReady        int            `json:"max_ready"`
	TokenViolations int64          `json:"token_violations"`
}

type Verdict struct {
	Verdict    string           `json:"verdict"`
	Property   string           `json:"property"`
	Class      string           `json:"class"`
	Sig        string           `json:"sig"`
	Detail     string           `json:"detail"`
	Nontrivial bool             `json:"nontrivial"`
	Hash       uint64           `json:"hash"`
	Exec       int              `json:"exec"`
	Res        *Result          `json:"res"`
	Extra      map[string]int64 `json:"extra"`
	Sample     json.RawMessage  `json:"sample"`
}

type caseT struct {
	Engine string          `json:"engine"`
	Seed   uint64          `json:"seed"`
	Tier   string          `json:"tier,omitempty"`
	Params json.RawMessage `json:"params"`
	Sched  json.RawMessage `json:"sched"`
}

type runLine struct {
	I       int      `json:"i"`
	Seed    uint64   `json:"seed"`
	V       *Verdict `json:"v"`
	Case    *caseT   `json:"case"`
	WallUs  int64    `json:"wall_us"`
	Sketch  []uint64 `json:"sketch"`
	Recycle bool     `json:"recycle"`
	NextN   int      `json:"next_n"`
}

type ReplayFile struct {
	Property            string   `json:"property"`
	Class               string   `json:"class"`
	Sig                 string   `json:"sig"`
	Detail              string   `json:"detail"`
	Minimised           bool     `json:"minimised"`
	OrigSeed            uint64   `json:"orig_seed"`
	Case                *caseT   `json:"case"`
	Notes               []string `json:"notes,omitempty"`
	ReplayDeterministic *bool    `json:"replay_deterministic,omitempty"`
}

func workerEnv(extra ...string) []string {
	env := os.Environ()
	env = append(env, "ELKPATH="+repoDir, "ELK_DEFAULT_THREAD_POOL_SIZE=0",
		"SIM_LABELS="+filepath.Join(verifDir, "build/labels.json"), "GOTRACEBACK=single")
	return append(env, extra...)
}

type workerExit struct {
	err       error
	stderr    string
	lastBegin string
	done      bool
	timedOut  bool
}

// runWorker runs one harness process. wallLimit guards against a stalled simulator.
func runWorker(env []string, wallLimit time.Duration) workerExit {
	// the sandbox has no memory limit: a corrupted length in the system under test must not
	// take the machine down, so every worker gets a 12 GB address-space limit (a worker that
	// hits it dies with Go's out-of-memory fatal error and is handled like any other death)
	cmd := exec.Command("/bin/sh", "-c", `ulimit -v 12582912 2>/dev/null; exec "$0" "$@"`,
		filepath.Join(verifDir, "build/harness.test"), "-test.run", "^TestWorker$", "-test.timeout", "0")
	cmd.Env = env
	cmd.Dir = scratchDir
	var mu sync.Mutex
	var tailBuf []string
	var crashHead []string
	lastBegin := ""
	done := false
	pr, pw := io.Pipe()
	cmd.Stderr = pw
	cmd.Stdout = pw
	cmd.SysProcAttr = &syscall.SysProcAttr{Setpgid: true}
	var wg sync.WaitGroup
	wg.Add(1)
	go func() {
		defer wg.Done()
		sc := bufio.NewScanner(pr)
		sc.Buffer(make([]byte, 1<<20), 1<<24)
		for sc.Scan() {
			line := sc.Text()
			mu.Lock()
			if strings.HasPrefix(line, "BEGIN ") {
				lastBegin = line
			} else if line == "DONE" {
				done = true
			} else {
				if crashHead == nil && (strings.HasPrefix(line, "fatal error:") || strings.HasPrefix(line, "panic:") || strings.HasPrefix(line, "unexpected fault") || strings.HasPrefix(line, "SIGQUIT")) {
					crashHead = []string{}
				}
				if crashHead != nil && len(crashHead) < 60 {
					crashHead = append(crashHead, line)
				}
				tailBuf = append(tailBuf, line)
				if len(tailBuf) > 200 {
					tailBuf = tailBuf[len(tailBuf)-120:]
				}
			}
			mu.Unlock()
		}
	}()
	if err := cmd.Start(); err != nil {
		return workerExit{err: err}
	}
	timedOut := false
	timer := time.AfterFunc(wallLimit, func() {
		timedOut = true
		syscall.Kill(-cmd.Process.Pid, syscall.SIGQUIT)
		time.Sleep(2 * time.Second)
		syscall.Kill(-cmd.Process.Pid, syscall.SIGKILL)
	})
	err := cmd.Wait()
	timer.Stop()
	pw.Close()
	wg.Wait()
	mu.Lock()
	defer mu.Unlock()
	text := strings.Join(tailBuf, "\n")
	if crashHead != nil {
		text = strings.Join(crashHead, "\n")
	}
	return workerExit{err: err, stderr: text, lastBegin: lastBegin, done: done, timedOut: timedOut}
}

// ---------------------------------------------------------------- known findings

type Finding struct {
	Property string `json:"property"`
	Sig      string `json:"sig"`
	What     string `json:"what"`
	Witness  string `json:"witness,omitempty"`
}
type Fixed struct {
	Property string `json:"property"`
	Commit   string `json:"commit"`
	What     string `json:"what"`
}
type KnownFile struct {
	Findings []Finding `json:"findings"`
	Fixed    []Fixed   `json:"fixed"`
}

func loadKnown() KnownFile {
	var k KnownFile
	b, err := os.ReadFile(filepath.Join(verifDir, "known_findings.json"))
	if err == nil {
		json.Unmarshal(b, &k)
	}
	return k
}

// ---------------------------------------------------------------- run a check

type engineInfo struct {
	Engine      string
	Rule        string
	Assumptions []string
	Real        []string
	Stub        []string
	QuickMs     int
	ThoroughMs  int
}

var engineTable = map[string]engineInfo{}

func main() {
	goBin = findGo()
	if len(os.Args) < 2 {
		die(2, "usage: vcheck build | run <property> [--tier quick|thorough] | replay <file> | selftest determinism <property>")
	}
	switch os.Args[1] {
	case "build":
		if err := buildTools(); err != nil {
			die(2, "%v", err)
		}
		ensureBuild(true)
	case "run":
		fs := flag.NewFlagSet("run", flag.ExitOnError)
		tier := fs.String("tier", "", "quick | thorough")
		budget := fs.Int("budget-ms", 0, "override exploration budget")
		workers := fs.Int("workers", 0, "worker processes")
		if len(os.Args) < 3 {
			die(2, "run: property id required")
		}
		fs.Parse(os.Args[3:])
		t := *tier
		if t == "" {
			t = os.Getenv("VERIF_TIER")
		}
		if t == "" {
			t = "quick"
		}
		os.Exit(runCheck(os.Args[2], t, *budget, *workers))
	case "replay":
		if len(os.Args) < 3 {
			die(2, "replay: file required")
		}
		os.Exit(replayCmd(os.Args[2]))
	case "selftest":
		if len(os.Args) < 4 {
			die(2, "selftest determinism <property>")
		}
		os.Exit(selftestDeterminism(os.Args[3]))
	default:
		die(2, "unknown command %q", os.Args[1])
	}
}

func baseSeed() uint64 {
	if v := os.Getenv("VERIF_SEED"); v != "" {
		if n, err := strconv.ParseUint(v, 10, 64); err == nil {
			return n
		}
		if n, err := strconv.ParseInt(v, 10, 64); err == nil {
			return uint64(n)
		}
	}
	return 1
}

type agg struct {
	mu                sync.Mutex
	runs              int
	execs             int
	verdicts          map[string]int
	classes           map[string]int
	firstInconclusive string
	hashes            map[uint64]struct{}
	schedules         map[uint64]struct{}
	sketch            map[uint64]struct{}
	strategies        map[string]int
	faults            map[string]int
	probes            map[string]int
	extra             map[string]int64
	ticks             int64
	switches          int64
	fakeNs            int64
	lockWaits         int64
	realBlocks        int64
	uninstr           int64
	selects           int64
	mapRanges         int64
	mapUnc            int64
	maxReady          int
	samples           []json.RawMessage
	violations        []runLine
	harnessErr        []runLine
	wallUs            int64
	canary            map[int][3]uint64
	rejected          int
	firstRejected     string
}

func newAgg() *agg {
	return &agg{verdicts: map[string]int{}, classes: map[string]int{}, hashes: map[uint64]struct{}{}, schedules: map[uint64]struct{}{},
		sketch: map[uint64]struct{}{}, strategies: map[string]int{}, faults: map[string]int{}, probes: map[string]int{}, extra: map[string]int64{}, canary: map[int][3]uint64{}}
}

func (a *agg) addFile(path string) (recycleNext int, ok bool) {
	f, err := os.Open(path)
	if err != nil {
		return 0, false
	}
	defer f.Close()
	sc := bufio.NewScanner(f)
	sc.Buffer(make([]byte, 1<<20), 1<<26)
	recycleNext = -1
	a.mu.Lock()
	defer a.mu.Unlock()
	for sc.Scan() {
		var l runLine
		if err := json.Unmarshal(sc.Bytes(), &l); err != nil {
			continue
		}
		if l.Recycle {
			recycleNext = l.NextN
			continue
		}
		if l.Sketch != nil {
			for _, h := range l.Sketch {
				a.sketch[h] = struct{}{}
			}
			continue
		}
		if l.V == nil {
			continue
		}
		v := l.V
		a.runs++
		a.execs += v.Exec
		a.verdicts[v.Verdict]++
		a.wallUs += l.WallUs
		if v.Class != "" {
			a.classes[v.Verdict+"/"+v.Class+"/"+v.Sig]++
		}
		if v.Nontrivial {
			a.hashes[v.Hash] = struct{}{}
		}
		for k, x := range v.Extra {
			a.extra[k] += x
		}
		if r := v.Res; r != nil {
			a.ticks += r.Ticks
			a.switches += r.Switches
			a.fakeNs += r.FakeNs
			a.lockWaits += r.LockWaits
			a.realBlocks += r.RealBlocks
			a.uninstr += r.Uninstr
			a.selects += r.Selects
			a.mapRanges += r.MapRanges
			a.mapUnc += r.MapUncontrolled
			if r.MaxReady > a.maxReady {
				a.maxReady = r.MaxReady
			}
			a.schedules[r.TraceHash] = struct{}{}
			for k, n := range r.Faults {
				a.faults[k] += n
			}
			for k, n := range r.Probes {
				a.probes[k] += n
			}
			if l.I < 16 {
				a.canary[l.I] = [3]uint64{r.LabelHash, r.TraceHash, uint64(r.Ticks)}
			}
		}
		switch v.Verdict {
		case "inconclusive":
			if a.firstInconclusive == "" {
				a.firstInconclusive = v.Class + ": " + firstLines(v.Detail, 60)
			}
		case "violation":
			a.violations = append(a.violations, l)
		case "harness_error":
			if v.Class == "workload_rejected" {
				a.rejected++
				if a.firstRejected == "" {
					a.firstRejected = v.Detail
				}
			} else {
				a.harnessErr = append(a.harnessErr, l)
			}
		case "ok":
			if l.Case != nil && len(a.samples) < 3 {
				s := map[string]any{"seed": l.Seed, "case": l.Case, "verdict": v.Verdict}
				if v.Sample != nil {
					s["observed"] = v.Sample
				}
				b, _ := json.Marshal(s)
				a.samples = append(a.samples, b)
			}
		}
	}
	return recycleNext, true
}

func tierBudget(prop, tier string, override int) time.Duration {
	if override > 0 {
		return time.Duration(override) * time.Millisecond
	}
	if v := os.Getenv("VERIF_BUDGET_MS"); v != "" {
		if n, err := strconv.Atoi(v); err == nil {
			return time.Duration(n) * time.Millisecond
		}
	}
	if tier == "thorough" {
		return 20 * time.Minute
	}
	return 45 * time.Second
}

func runCheck(prop, tier string, budgetMs, nWorkers int) int {
	t0 := time.Now()
	info, ok := engineTable[prop]
	if !ok {
		die(2, "no check for property %q", prop)
	}
	ensureBuild(false)
	if nWorkers <= 0 {
		nWorkers = runtime.NumCPU()
		if nWorkers > 16 {
			nWorkers = 16
		}
	}
	budget := tierBudget(prop, tier, budgetMs)
	base := baseSeed()
	var knownSigs []string
	for _, f := range loadKnown().Findings {
		knownSigs = append(knownSigs, f.Property+"|"+f.Sig)
	}
	os.Setenv("SIM_KNOWN_SIGS", strings.Join(knownSigs, ","))
	tmp, err := os.MkdirTemp(scratchDir, "run-"+prop+"-")
	if err != nil {
		die(2, "%v", err)
	}
	defer os.RemoveAll(tmp)
	a := newAgg()
	deadline := time.Now().Add(budget)
	var deaths []string
	var deathMu sync.Mutex
	stalled := false
	var wg sync.WaitGroup
	for w := 0; w < nWorkers; w++ {
		wg.Add(1)
		go func(w int) {
			defer wg.Done()
			nextN := 0
			for part := 0; ; part++ {
				left := time.Until(deadline)
				if left < 500*time.Millisecond {
					return
				}
				out := filepath.Join(tmp, fmt.Sprintf("w%d-%d.jsonl", w, part))
				env := workerEnv("SIM_MODE=explore", "SIM_ENGINE="+info.Engine, "SIM_TIER="+tier,
					"SIM_BASE_SEED="+strconv.FormatUint(base, 10),
					"SIM_FROM="+strconv.Itoa(w+nextN*nWorkers), "SIM_STRIDE="+strconv.Itoa(nWorkers),
					"SIM_BUDGET_MS="+strconv.Itoa(int(left.Milliseconds())), "SIM_OUT="+out)
				ex := runWorker(env, left+3*time.Minute)
				rn, _ := a.addFile(out)
				if ex.timedOut {
					deathMu.Lock()
					stalled = true
					deaths = append(deaths, fmt.Sprintf("worker %d stalled at %s\n%s", w, ex.lastBegin, tail(ex.stderr, 60)))
					deathMu.Unlock()
					return
				}
				if ex.done && rn < 0 {
					return
				}
				if ex.done && rn >= 0 {
					nextN += rn
					continue
				}
				// died: attribute to the last BEGIN line
				deathMu.Lock()
				deaths = append(deaths, fmt.Sprintf("%s\n%s", ex.lastBegin, firstLines(ex.stderr, 60)))
				deathMu.Unlock()
				// resume after the run that killed the worker
				f := strings.Fields(ex.lastBegin)
				if len(f) >= 2 {
					if i, err := strconv.Atoi(f[1]); err == nil {
						nextN = (i-w)/nWorkers + 1
						continue
					}
				}
				return
			}
		}(w)
	}
	wg.Wait()
	explWall := time.Since(t0).Seconds()

	known := loadKnown()
	isKnown := func(p, sig string) *Finding {
		for i := range known.Findings {
			if known.Findings[i].Property == p && known.Findings[i].Sig == sig {
				return &known.Findings[i]
			}
		}
		return nil
	}

	// process deaths: confirm each by re-running that single index alone
	type deathCase struct {
		i        int
		detail   string
		caseJSON json.RawMessage // the generated case, written by the worker before it ran it
		sig      string
	}
	var confirmedDeaths []deathCase
	seenDeath := map[int]bool{}
	for _, d := range deaths {
		if stalled {
			break
		}
		f := strings.Fields(strings.SplitN(d, "\n", 2)[0])
		if len(f) < 3 || f[0] != "BEGIN" {
			continue
		}
		i, err := strconv.Atoi(f[1])
		if err != nil || seenDeath[i] || len(confirmedDeaths) >= 3 {
			continue
		}
		seenDeath[i] = true
		out := filepath.Join(tmp, fmt.Sprintf("death-%d.jsonl", i))
		caseFile := filepath.Join(tmp, fmt.Sprintf("death-%d.case.json", i))
		env := workerEnv("SIM_MODE=explore", "SIM_ENGINE="+info.Engine, "SIM_TIER="+tier,
			"SIM_BASE_SEED="+strconv.FormatUint(base, 10), "SIM_FROM="+strconv.Itoa(i), "SIM_STRIDE=1", "SIM_COUNT=1",
			"SIM_BUDGET_MS=120000", "SIM_OUT="+out, "SIM_DUMP_CASE="+caseFile)
		ex := runWorker(env, 5*time.Minute)
		if !ex.done && !ex.timedOut {
			dc := deathCase{i: i, detail: firstLines(ex.stderr, 60), sig: "process_death"}
			if cb, err := os.ReadFile(caseFile); err == nil {
				dc.caseJSON = cb
				// the engine may recognise the death as a listed known finding (by the inputs of the case)
				sigOut := filepath.Join(tmp, fmt.Sprintf("death-%d.sig", i))
				runWorker(workerEnv("SIM_MODE=deathsig", "SIM_REPLAY="+caseFile, "SIM_OUT="+sigOut), 2*time.Minute)
				if sb, err := os.ReadFile(sigOut); err == nil && len(sb) > 0 {
					dc.sig = strings.TrimSpace(string(sb))
				}
			}
			confirmedDeaths = append(confirmedDeaths, dc)
		}
	}

	exit := 0
	var vioLines []string
	var knownSeen = map[string]int{}
	// in-process violations
	reported := map[string]bool{}
	os.MkdirAll(filepath.Join(verifDir, "replays"), 0o755)
	nViol := 0
	for _, l := range a.violations {
		v := l.V
		p := v.Property
		if p == "" {
			p = prop
		}
		if kf := isKnown(p, v.Sig); kf != nil {
			knownSeen[p+" "+kf.Sig]++
			continue
		}
		nViol++
		key := p + "/" + v.Class + "/" + v.Sig
		if reported[key] || len(reported) >= 3 {
			continue
		}
		reported[key] = true
		path := confirmAndMinimise(tmp, p, l, tier)
		vioLines = append(vioLines, fmt.Sprintf("VIOLATION property=%s replay=%s", p, path))
		fmt.Fprintf(os.Stderr, "--- violation of %s (%s): %s\n", p, v.Class, firstLines(v.Detail, 12))
		exit = 1
	}
	for _, d := range confirmedDeaths {
		sig := d.sig
		if kf := isKnown(prop, sig); kf != nil {
			knownSeen[prop+" "+sig]++
			continue
		}
		nViol++
		// replay file for a process death: the generated case is a function of (base seed, index)
		rf := map[string]any{"property": prop, "class": "process_death", "sig": sig, "detail": d.detail,
			"process_death": map[string]any{"engine": info.Engine, "base_seed": base, "index": d.i, "tier": tier}}
		if d.caseJSON != nil {
			rf["generated_case"] = d.caseJSON // for the reader; replay regenerates it from (base seed, index)
		}
		b, _ := json.MarshalIndent(rf, "", " ")
		path := filepath.Join(verifDir, "replays", fmt.Sprintf("%s-death-%d-%d.json", prop, base, d.i))
		os.WriteFile(path, b, 0o644)
		vioLines = append(vioLines, fmt.Sprintf("VIOLATION property=%s replay=%s", prop, path))
		fmt.Fprintf(os.Stderr, "--- worker process died running %s case %d:\n%s\n", prop, d.i, firstLines(d.detail, 25))
		exit = 1
	}
	if stalled && exit == 0 {
		exit = 2
	}
	if len(a.harnessErr) > 0 && exit == 0 {
		fmt.Fprintf(os.Stderr, "vcheck: %d harness errors, first: %s\n", len(a.harnessErr), firstLines(a.harnessErr[0].V.Detail, 30))
		exit = 2
	}
	if f := os.Getenv("VCHECK_SHOW_REJECTED"); a.rejected > 0 && strings.HasPrefix(f, "/") {
		os.WriteFile(f, []byte(a.firstRejected), 0o644)
	}
	if a.rejected > 0 && os.Getenv("VCHECK_SHOW_REJECTED") != "" {
		fmt.Fprintf(os.Stderr, "vcheck: note: %d generated workloads were rejected by the type checker, first: %s\n", a.rejected, firstLines(a.firstRejected, 12))
	}
	if a.rejected*4 > a.runs && exit == 0 {
		fmt.Fprintf(os.Stderr, "vcheck: %d of %d generated workloads were rejected by the type checker, first: %s\n", a.rejected, a.runs, firstLines(a.firstRejected, 20))
		exit = 2
	}
	if a.runs == 0 && exit == 0 {
		fmt.Fprintf(os.Stderr, "vcheck: no run completed\n%s\n", strings.Join(deaths, "\n"))
		exit = 2
	}

	// determinism canary: first indices again, in one fresh process
	canaryChecked, canaryMismatch := 0, 0
	if exit == 0 && len(a.canary) > 0 {
		out := filepath.Join(tmp, "canary.jsonl")
		env := workerEnv("SIM_MODE=explore", "SIM_ENGINE="+info.Engine, "SIM_TIER="+tier,
			"SIM_BASE_SEED="+strconv.FormatUint(base, 10), "SIM_FROM=0", "SIM_STRIDE=1", "SIM_COUNT=8",
			"SIM_BUDGET_MS=60000", "SIM_OUT="+out, "SIM_SAMPLES=0")
		ex := runWorker(env, 4*time.Minute)
		if ex.done {
			b := newAgg()
			b.addFile(out)
			for i, x := range b.canary {
				if y, ok := a.canary[i]; ok {
					canaryChecked++
					if x != y {
						canaryMismatch++
					}
				}
			}
		}
	}

	if canaryMismatch > 0 {
		// machinery trouble, not a verdict about the property: said loudly, the exit status is left alone
		fmt.Fprintf(os.Stderr, "vcheck: WARNING determinism canary: %d of %d repeated indices gave another trace in a fresh process (replay files of this run may not reproduce; run `vcheck selftest determinism %s`)\n", canaryMismatch, canaryChecked, prop)
	}

	// evidence
	var instr map[string]any
	if b, err := os.ReadFile(filepath.Join(verifDir, "build/labels.json")); err == nil {
		var d struct {
			Stats map[string]any `json:"stats"`
		}
		json.Unmarshal(b, &d)
		instr = d.Stats
		delete(instr, "warnings")
		delete(instr, "critical_hit")
	}
	samples := a.samples
	if len(samples) == 0 {
		for _, l := range a.violations {
			b, _ := json.Marshal(map[string]any{"seed": l.Seed, "case": l.Case, "verdict": l.V.Verdict, "class": l.V.Class})
			samples = append(samples, b)
			if len(samples) >= 2 {
				break
			}
		}
	}
	if len(samples) == 0 {
		samples = append(samples, json.RawMessage(`"no case completed"`))
	}
	wall := time.Since(t0).Seconds()
	cov := map[string]any{
		"evaluations":             max1(a.runs),
		"distinct_nontrivial":     len(a.hashes),
		"rule":                    info.Rule,
		"samples":                 samples,
		"simulated_executions":    a.execs,
		"runs_per_hour":           int(float64(a.runs) / explWall * 3600),
		"simulated_time_s":        float64(a.fakeNs) / 1e9,
		"scheduler_ticks":         a.ticks,
		"context_switches":        a.switches,
		"distinct_schedules":      len(a.schedules),
		"distinct_states_sketch":  len(a.sketch),
		"max_ready_tasks":         a.maxReady,
		"lock_waits":              a.lockWaits,
		"real_blocks":             a.realBlocks,
		"uninstrumented_blocks":   a.uninstr,
		"selects_determinised":    a.selects,
		"map_ranges_controlled":   a.mapRanges,
		"map_ranges_uncontrolled": a.mapUnc,
		"faults_fired":            a.faults,
		"reach_probes":            a.probes,
		"verdicts":                a.verdicts,
		"classes":                 a.classes,
		"first_inconclusive":      a.firstInconclusive,
		"engine_counters":         a.extra,
		"known_findings_seen":     knownSeen,
		"worker_deaths":           len(deaths),
		"workers":                 nWorkers,
		"budget_s":                budget.Seconds(),
		"instrumentation":         instr,
		"determinism_canary":      map[string]int{"checked": canaryChecked, "mismatches": canaryMismatch},
		"components_real":         info.Real,
		"components_stub":         info.Stub,
	}
	ev := map[string]any{
		"property_id": prop, "tier": tier, "seed": int64(base & 0x7fffffffffffffff), "level": "exploration",
		"coverage": cov, "assumptions": info.Assumptions, "wall_s": wall, "violations": nViol,
	}
	b, _ := json.MarshalIndent(ev, "", " ")
	os.MkdirAll(filepath.Join(verifDir, "evidence"), 0o755)
	os.WriteFile(filepath.Join(verifDir, "evidence", prop+".json"), b, 0o644)

	for _, f := range known.Findings {
		if f.Property == prop {
			fmt.Printf("KNOWN-FINDING: property=%s %s (sig %s; seen %d times in this run)\n", prop, f.What, f.Sig, knownSeen[prop+" "+f.Sig])
		}
	}
	for _, l := range vioLines {
		fmt.Println(l)
	}
	fmt.Fprintf(os.Stderr, "vcheck: %s %s: %d cases (%d simulated executions), %d distinct non-trivial, %d violations, verdicts %v, %.0fs\n",
		prop, tier, a.runs, a.execs, len(a.hashes), nViol, a.verdicts, wall)
	if exit == 2 {
		fmt.Fprintf(os.Stderr, "vcheck: harness trouble (exit 2)\n%s\n", tail(strings.Join(deaths, "\n"), 80))
	}
	return exit
}

func max1(n int) int {
	if n < 1 {
		return 1
	}
	return n
}

func firstLines(s string, n int) string {
	lines := strings.Split(s, "\n")
	if len(lines) > n {
		lines = lines[:n]
	}
	return strings.Join(lines, "\n")
}

// confirmAndMinimise writes the replay file for a violation and returns its path.
func confirmAndMinimise(tmp, prop string, l runLine, tier string) string {
	v := l.V
	rf := ReplayFile{Property: prop, Class: v.Class, Sig: v.Sig, Detail: v.Detail, OrigSeed: l.Seed, Case: l.Case}
	final := filepath.Join(verifDir, "replays", fmt.Sprintf("%s-%d.json", prop, l.Seed))
	raw := filepath.Join(tmp, fmt.Sprintf("raw-%d.json", l.Seed))
	b, _ := json.MarshalIndent(&rf, "", " ")
	os.WriteFile(raw, b, 0o644)
	os.WriteFile(final, b, 0o644)
	minOut := filepath.Join(tmp, fmt.Sprintf("min-%d.json", l.Seed))
	budget := 60000
	if tier == "thorough" {
		budget = 300000
	}
	ex := runWorker(workerEnv("SIM_MODE=minimise", "SIM_REPLAY="+raw, "SIM_OUT="+minOut, "SIM_BUDGET_MS="+strconv.Itoa(budget)), time.Duration(budget)*time.Millisecond+3*time.Minute)
	_ = ex
	cand := raw
	if mb, err := os.ReadFile(minOut); err == nil {
		var m ReplayFile
		if json.Unmarshal(mb, &m) == nil && m.Case != nil {
			cand = minOut
		}
	}
	// final confirmation in a fresh process
	reproduced := false
	for attempt := 0; attempt < 3 && !reproduced; attempt++ {
		out := filepath.Join(tmp, fmt.Sprintf("rep-%d-%d.json", l.Seed, attempt))
		ex := runWorker(workerEnv("SIM_MODE=replay", "SIM_REPLAY="+cand, "SIM_OUT="+out), 5*time.Minute)
		if rb, err := os.ReadFile(out); err == nil {
			var r struct {
				Reproduced bool `json:"reproduced"`
			}
			json.Unmarshal(rb, &r)
			reproduced = r.Reproduced
		} else if !ex.done && cand == raw {
			// the replay itself kills the process: that is a reproduction of a crash
			reproduced = v.Class == "process_death"
		}
		if !reproduced && cand != raw && attempt == 1 {
			cand = raw
		}
	}
	cb, _ := os.ReadFile(cand)
	var out ReplayFile
	json.Unmarshal(cb, &out)
	out.ReplayDeterministic = &reproduced
	fb, _ := json.MarshalIndent(&out, "", " ")
	os.WriteFile(final, fb, 0o644)
	return final
}

func replayCmd(path string) int {
	if abs, err := filepath.Abs(path); err == nil {
		path = abs // workers run in the scratch directory
	}
	ensureBuild(false)
	b, err := os.ReadFile(path)
	if err != nil {
		die(2, "%v", err)
	}
	var probe struct {
		Property string `json:"property"`
		Class    string `json:"class"`
		Death    *struct {
			Engine   string `json:"engine"`
			BaseSeed uint64 `json:"base_seed"`
			Index    int    `json:"index"`
			Tier     string `json:"tier"`
		} `json:"process_death"`
	}
	json.Unmarshal(b, &probe)
	os.MkdirAll(scratchDir, 0o755)
	tmp, _ := os.MkdirTemp(scratchDir, "replay-")
	defer os.RemoveAll(tmp)
	if probe.Death != nil {
		out := filepath.Join(tmp, "o.jsonl")
		ex := runWorker(workerEnv("SIM_MODE=explore", "SIM_ENGINE="+probe.Death.Engine, "SIM_TIER="+probe.Death.Tier,
			"SIM_BASE_SEED="+strconv.FormatUint(probe.Death.BaseSeed, 10), "SIM_FROM="+strconv.Itoa(probe.Death.Index), "SIM_STRIDE=1", "SIM_COUNT=1",
			"SIM_BUDGET_MS=120000", "SIM_OUT="+out), 5*time.Minute)
		if !ex.done && !ex.timedOut {
			fmt.Fprintf(os.Stderr, "%s\n", tail(ex.stderr, 40))
			fmt.Printf("VIOLATION property=%s replay=%s\n", probe.Property, path)
			return 1
		}
		fmt.Println("diverged: the worker process survived")
		return 2
	}
	out := filepath.Join(tmp, "o.json")
	ex := runWorker(workerEnv("SIM_MODE=replay", "SIM_REPLAY="+path, "SIM_OUT="+out), 10*time.Minute)
	rb, err := os.ReadFile(out)
	if err != nil {
		fmt.Fprintf(os.Stderr, "replay worker failed:\n%s\n", tail(ex.stderr, 40))
		return 2
	}
	var r struct {
		Reproduced bool     `json:"reproduced"`
		V          *Verdict `json:"v"`
	}
	json.Unmarshal(rb, &r)
	if r.Reproduced {
		if r.V != nil {
			fmt.Fprintf(os.Stderr, "%s\n", firstLines(r.V.Detail, 40))
		}
		fmt.Printf("VIOLATION property=%s replay=%s\n", probe.Property, path)
		return 1
	}
	vs := ""
	if r.V != nil {
		vs = r.V.Verdict + " " + r.V.Class
	}
	fmt.Printf("diverged: replay ended with %s\n", vs)
	return 2
}

// selftestDeterminism runs the same indices in several fresh processes at
// different GOMAXPROCS, and once after 50 unrelated runs in the same process,
// and compares label hashes, trace hashes and tick counts.
func selftestDeterminism(prop string) int {
	info, ok := engineTable[prop]
	if !ok {
		die(2, "no check for property %q", prop)
	}
	ensureBuild(false)
	os.MkdirAll(scratchDir, 0o755)
	tmp, _ := os.MkdirTemp(scratchDir, "det-")
	defer os.RemoveAll(tmp)
	n := 64
	if v := os.Getenv("SELFTEST_N"); v != "" {
		n, _ = strconv.Atoi(v)
	}
	base := baseSeed()
	ref := map[int][3]uint64{}
	refVerdict := map[int]string{}
	mismatch := 0
	total := 0
	runOne := func(tag string, from, count int, gomax string) map[int][3]uint64 {
		out := filepath.Join(tmp, tag+".jsonl")
		env := workerEnv("SIM_MODE=explore", "SIM_ENGINE="+info.Engine, "SIM_TIER=quick",
			"SIM_BASE_SEED="+strconv.FormatUint(base, 10), "SIM_FROM="+strconv.Itoa(from), "SIM_STRIDE=1", "SIM_COUNT="+strconv.Itoa(count),
			"SIM_BUDGET_MS=600000", "SIM_OUT="+out, "SIM_SAMPLES=0", "SIM_MAX_VIOLATIONS=100000", "GOMAXPROCS="+gomax)
		runWorker(env, 15*time.Minute)
		res := map[int][3]uint64{}
		f, err := os.Open(out)
		if err != nil {
			return res
		}
		defer f.Close()
		sc := bufio.NewScanner(f)
		sc.Buffer(make([]byte, 1<<20), 1<<26)
		for sc.Scan() {
			var l runLine
			if json.Unmarshal(sc.Bytes(), &l) != nil || l.V == nil || l.V.Res == nil {
				continue
			}
			res[l.I] = [3]uint64{l.V.Res.LabelHash, l.V.Res.TraceHash, uint64(l.V.Res.Ticks)}
			if _, ok := refVerdict[l.I]; !ok {
				refVerdict[l.I] = l.V.Verdict + "/" + l.V.Class
			} else if refVerdict[l.I] != l.V.Verdict+"/"+l.V.Class {
				fmt.Printf("verdict differs for index %d: %s vs %s (%s)\n", l.I, refVerdict[l.I], l.V.Verdict+"/"+l.V.Class, tag)
				mismatch++
			}
		}
		return res
	}
	ref = runOne("ref", 0, n, "16")
	cmp := func(tag string, got map[int][3]uint64) {
		for i, x := range got {
			if i >= n {
				continue
			}
			total++
			if y, ok := ref[i]; ok && x != y {
				mismatch++
				fmt.Printf("MISMATCH index %d (%s): ref %v got %v\n", i, tag, y, x)
			}
		}
	}
	var wg sync.WaitGroup
	var mu sync.Mutex
	for _, gm := range []string{"1", "4", "16", "2"} {
		wg.Add(1)
		go func(gm string) {
			defer wg.Done()
			got := runOne("gm"+gm, 0, n, gm)
			mu.Lock()
			cmp("GOMAXPROCS="+gm, got)
			mu.Unlock()
		}(gm)
	}
	wg.Wait()
	// single-run fresh processes (replay conditions) for indices that ran
	// after many others in the reference process
	for i := n - 8; i < n; i++ {
		if i < 0 {
			continue
		}
		got := runOne(fmt.Sprintf("single%d", i), i, 1, "8")
		cmp("fresh-single", got)
	}
	fmt.Printf("determinism selftest %s: %d comparisons, %d mismatches\n", prop, total, mismatch)
	if mismatch > 0 {
		return 2
	}
	return 0
}

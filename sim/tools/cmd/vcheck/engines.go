package main

var commonAssumptions = []string{
	"Go runtime and testing/synctest (quiescence detection, fake clock) are correct",
	"the instrumenter's rewrites preserve behaviour: inserted calls have no effect on program state; select, reflect.Select and map-range rewrites pick one of the behaviours the Go specification allows",
	"preemption happens at Go statement / loop / function-entry / VM-instruction boundaries only: memory-model level effects are out of reach",
	"sampling, not enumeration: a clean batch is evidence about the explored schedules only",
}

var realAll = []string{"lexer", "parser", "type checker", "bytecode compiler", "VM (vm.Thread, run loop)", "value/* runtime objects", "concurrent/*", "sync primitives (Go runtime channels, mutexes, wait groups)"}
var stubAll = []string{"stdout/stderr (in-memory buffer)", "goroutine scheduling (token scheduler)", "wall clock (synctest fake clock)", "OS signals and terminal (absent)", "ELK_* environment variables (package variables set directly)"}

func init() {
	engineTable["C26"] = engineInfo{
		Engine:      "C26",
		Rule:        "case = 2-5 client tasks x 2-10 operations (Add/Get/Exists/GetName/ExistsId on a fresh SymbolTableStruct, ToSymbol/Get on the global table) over an alphabet of 2-5 names plus a preloaded prefix, x one schedule drawn from {random gap 1..1000, PCT depth 1-4, non-preemptive, starvation, round-robin}; checked with porcupine against a sequential intern table plus bijection invariants. Non-trivial: at least two clients and at least two context switches; distinct: hash of (operation lists, schedule deviation trace)",
		Assumptions: commonAssumptions,
		Real:        []string{"value.SymbolTableStruct (fresh instance and the global value.SymbolTable)", "value.ToSymbol", "sync.RWMutex (Go runtime)"},
		Stub:        []string{"goroutine scheduling (token scheduler)", "client tasks (harness code calling the public Go API)"},
	}
	engineTable["C16"] = engineInfo{
		Engine:      "C16",
		Rule:        "case = generated Elk program building a promise DAG (3-12 async tasks: leaf, spin, slow(timeout), boom(throws), chain, join2, guard(catch); 0-2 go threads awaiting main's promises synchronously; sinks awaited in random order) x pool size 1-4 x queue capacity from {1,2,3,N,4N} (N = bound on enqueues) x one schedule; oracle: run ends, no Go panic, printed token multiset equals the reference evaluator's (each awaiter resumed exactly once, each promise settled exactly once). Non-trivial: >= 3 tasks and >= 3 context switches; distinct: hash of (source, pool, queue, schedule deviation trace)",
		Assumptions: commonAssumptions,
		Real:        append([]string{"vm.Promise", "vm.ThreadPool / threadWorker / executeBytecodePromise", "AWAIT / AWAIT_RESULT / AWAIT_SYNC", "Kernel#timeout"}, realAll...),
		Stub:        stubAll,
	}
	engineTable["C15"] = engineInfo{
		Engine:      "C15",
		Rule:        "case = generated Elk program x pool 1-4 x one schedule. Family A (70%): 1-5 generated bodies over Int locals, arithmetic, if, bounded while, early return, throw, do/catch around throwing helpers, each emitted as def / def * / async def and called on 3 inputs (async instances all in flight together); bodies with yield statements are emitted as a generator and as a plain twin appending to a list, the generator is drained with next until stop_iteration and probed once more. Family B (30%): promise DAG programs of C16 at queue >= N. Oracle: printed lines equal the independent big-integer reference evaluator's (so the three variants agree, yields come in order then the end signal, each promise settles once), no Go panic, no deadlock. Non-trivial: >= 2 context switches; distinct: hash of (source, pool, queue, schedule trace)",
		Assumptions: commonAssumptions,
		Real:        append([]string{"vm.Generator / CallGeneratorNext", "callBytecodePromise", "vm.Promise settlement", "vm.ThreadPool"}, realAll...),
		Stub:        stubAll,
	}
	engineTable["C25"] = engineInfo{
		Engine:      "C25",
		Rule:        "case = one workload x one schedule. Go-API family (55%): 2-5 client tasks x 1-5 operations (Push/PushCtx/Pop/PopCtx/NextValue/Close, unique values) on one value.ChannelOfValue of capacity 0-3, closed by a peer after a PRNG-chosen number of steps and then cancelled, history checked with porcupine against a FIFO queue with a closed flag; Mutex / RWMutex clients with shadow inside-counters and torn-read detection; WaitGroup waiters. Elk family (45%): generated programs - producers/consumers over a channel read with for-in, <<ch or pop, close by main; lock-protected counters with Mutex or RWMutex and readers checking a two-field invariant; select over two channels with disjoint value ranges plus else and send cases; Once#call from several threads; WaitGroup; misuse sequences (unlock unlocked, read_unlock unlocked, double close, push/pop after close, drain then pop, unlock from another thread). Oracle: exactly-once delivery, per-producer order, mutual exclusion, run-once, documented error classes, no Go panic, no process death. Non-trivial: >= 2 context switches (misuse programs always); distinct: hash of (workload, schedule trace)",
		Assumptions: commonAssumptions,
		Real:        append([]string{"value.ChannelOfValue and views", "value.Mutex / RWMutex / WaitGroup / Once", "vm select (opSelect, reflect.Select determinised)", "vm go threads"}, realAll...),
		Stub:        stubAll,
	}
	engineTable["C33"] = engineInfo{
		Engine:      "C33",
		Rule:        "case = non-terminating program shape (33 shapes: loop / while / until / for over endless ranges, iterators, generators and channels, mutual and self tail recursion, labelled nested loops, loops in methods, closures, native map callbacks, do/finally, defer, inner catch, blocking channel pop/push/for-in, select with no ready case, await in a loop, plus the context-less await/wait/lock) compiled with AdditionalAbortChecks as the REPL does, run in the main thread or in a go thread behind a blocked or spinning main thread, after 0-3 terminating prologue fragments x cancel instant (scheduler tick, log-uniform 1..65535, delivered immediately when every task is blocked) x one schedule (fair round-robin from the cancel on). Oracle: within 600000 ticks after the cancel the main thread ends with ExecutionAbortedError without running past the construct, and every go thread ends; steplimit = runs on, deadlock = hangs. Non-trivial: the cancel was delivered; distinct: hash of (source, cancel tick, schedule trace)",
		Assumptions: append([]string{"starvation schedules are excluded: prompt termination is only promised under a fair scheduler"}, commonAssumptions...),
		Real:        append([]string{"CHECK_ABORT emission (AdditionalAbortChecks)", "opCheckAbort", "context-aware channel operations", "value.Aborter"}, realAll...),
		Stub:        append([]string{"SIGINT handling and the REPL's 5 s watchdog (the cancel func is called directly)"}, stubAll...),
	}
	engineTable["C11"] = engineInfo{
		Engine:      "C11",
		Rule:        "case = generated program with 3-25 method bodies (top-level defs, module methods, instance methods of 0-3 classes; calls only to lower levels but in shuffled definition order so forward references are common; self and mutual recursion; locals initialised from calls; closures; if-expressions; list literals; 0-2 constants initialised from method calls; in 30% of programs 1-3 bodies carry a type error, in 30% a warning) x MethodCheckConcurrencyLimit in {2,3,8,100} x one schedule of the concurrent.Foreach tasks (preemption at every function entry and loop of types/checker, compiler, concurrent, diagnostic; statement level in checkMethodBodies, optimiseCalls, patchOptimisedCall, prepLocals, the concurrent.* containers and SyncDiagnosticList) x PRNG-controlled Go map iteration order. Oracle: against the same source checked at limit 1 without the scheduler - equal sorted diagnostic multiset, equal acceptance, and for accepted programs equal stdout and error of the compiled program run on the VM, and equal bytecode of every function in a normalised form (addresses dropped; method calls compared by target and argument count, whatever flavour of call instruction the build chose); no Go panic. Non-trivial: >= 3 tasks and >= 2 context switches; distinct: hash of (source, limit, schedule trace)",
		Assumptions: append([]string{"data-race clause: only consequences of unsynchronised access that show at statement granularity are decided (lost append, check-then-act, publication before completion); the token scheduler serialises memory accesses, so memory-model level races are out of reach"}, commonAssumptions...),
		Real:        realAll,
		Stub:        stubAll,
	}
	engineTable["C27"] = engineInfo{
		Engine:      "C27",
		Rule:        "case = REPL session of 4-13 inputs fed to the real repl evaluator (definitions and redefinitions of methods, classes, reopened classes, constants, top-level locals and their updates, uses printing tokens, runtime errors, and six kinds of inputs that the checker rejects after partial work: unknown superclass, type error in the second of two bodies, bad signature, bad constant after a valid class, error after new locals, bad redefinition; plus uses of names only rejected inputs tried to define) x optional failpoint that injects a checker failure at the k-th phase boundary of Checker.CheckProgram for one input x one schedule of the parallel method checks. Oracles: (1) the same session with the observed-rejected inputs removed produces identical output, echo and diagnostics for every other input; (2) for up to two accepted inputs, the tokens printed equal the tail of a batch compile-and-run of the accepted inputs before it plus itself; no Go panic. Non-trivial: at least one rejected and one accepted input; distinct: hash of (inputs, failpoint, schedule trace)",
		Assumptions: append([]string{"batch comparisons are skipped (counted) when the batch program is itself rejected, e.g. a top-level local declared twice"}, commonAssumptions...),
		Real:        append([]string{"repl.evaluator.evaluate (through a generated export file in the scratch copy)", "incremental Checker.CheckSource with snapshot/restore", "vm.InterpretREPL on a persistent stack"}, realAll...),
		Stub:        append([]string{"terminal input (go-prompt) and SIGINT", "os.Stdout / os.Stderr (redirected to a scratch file for the session)"}, stubAll...),
	}
	engineTable["C10"] = engineInfo{
		Engine:      "C10",
		Rule:        "case = deterministic program composed of 2-5 fragments (recursion to depth 5-900 with a closure per live frame called after the deeper calls return; generators suspended across recursive calls and resumed at another depth; closures appending to a shared list before and after deeper calls; async fib-style DAG awaited by main; list literals of 10-900 elements; bulk symbol creation; 8-argument tail recursion; generator driven by for-in with recursion inside) x knob vector (initial value stack 16..8191 slots log-uniform, max value stack, call stack 64..2x default frames, pool 1-8, queue 256-4096, symbol-table presize) x up to 5 forced value-stack reallocations at PRNG-chosen calls (failpoint in callBytecodeFunction, at most 6 per run) x one schedule. Oracle: stdout and error equal the run at default sizes, pool 4, queue 256 under the non-preemptive schedule, unless the run reports a stack limit (counted, excluded by the property); no Go panic. Distinct: hash of (program, knob vector, schedule trace)",
		Assumptions: append([]string{"the ELK_* environment variable parsing in init() is bypassed: package variables are set directly", "queue capacities below the enqueue bound are not drawn here (that is C16's known finding)"}, commonAssumptions...),
		Real:        append([]string{"vm.growValueStack", "callBytecodeFunction / CallGeneratorNext / callBytecodePromise stack copies", "vm.ThreadPool sizing"}, realAll...),
		Stub:        stubAll,
	}
	engineTable["C34"] = engineInfo{
		Engine:      "C34",
		Rule:        "case = generated suite tree (depth <= 4, up to ~25 cases declared with test / it / should inside describe / context blocks, passing, failing and erroring bodies, before_each / after_each / before_all hooks) written as an Elk test file at tracked line numbers x 0-1 grep filter (words, case ids, alternations, suite prefixes) x 0-1 path[:line] filter (matching and non-matching globs; line on a case, inside a case, on a describe line, anywhere, or absent) x shuffle seed x event channel capacity 1-50 x reporter stalling 0-40 scheduler steps per event x one schedule. Oracle: the multiset of cases reported as started equals the cases that satisfy every filter in the property's words (grep matches the full name; the line lies within the case or names an enclosing block), each exactly once and each finished; the exit status computed as cmd/elk does is failure iff a case that ran failed or errored. Non-trivial: a filter is present or the reporter interleaves; distinct: hash of (file, filters, seed, capacity, schedule trace)",
		Assumptions: append([]string{"shutdown from the reporter is not injected: the property does not say what the status should be then", "the doublestar glob semantics are trusted for the three patterns used"}, commonAssumptions...),
		Real:        append([]string{"ext/std/test: describe/test/it/should natives, Suite.Run, Case.Run, filters, RunWith"}, realAll...),
		Stub:        append([]string{"the reporter (recording implementation of the Reporter interface)", "cmd/elk flag parsing and os.Exit (the exit status expression is evaluated by the harness)"}, stubAll...),
	}
	engineTable["C01"] = engineInfo{
		Engine:      "C01",
		Rule:        "slice of the property: programs whose crash-freedom depends on a coincidence the simulator controls. case = program (45%: one of ten chaos templates - a generator shared by two threads, a closure over live locals handed to a go thread, a channel closed under its producers and consumers, WaitGroup driven below zero, Promise.wait over resolved, slow and rejected promises, deep closure recursion in three threads, locks unlocked by other threads and unlocked twice, errors thrown in native map callbacks inside async tasks inside go threads, timeouts and sleeps, select over channels being closed; 55%: programs of the promise-DAG, sync, body-variant and sizing generators) x hostile configuration (initial value stack 64-300 slots, call stack 64-200 frames, pool 1-3, queue 1-256) x optional cancellation of the main context at a log-uniform tick x 0-3 clock jumps of 1 ms - 1 h x one schedule incl. starvation. Oracle: no task ends in a Go panic and the worker process survives; stack-limit reports are excepted; deadlocks, step limits and Elk errors are not crashes. Non-trivial: >= 2 tasks; distinct: hash of (program, configuration, faults, schedule trace)",
		Assumptions: append([]string{"sequential programs are not claimed here (input generation, not simulation); crashes of the other engines' workloads are reported by those engines under their own property"}, commonAssumptions...),
		Real:        realAll,
		Stub:        stubAll,
	}
	engineTable["C32"] = engineInfo{
		Engine:      "C32",
		Rule:        "slice of the property: errors rethrown across promises. case = generated call chain of 2-6 functions, each plain or async (at least one promise is crossed), every link one of: plain call, await, await inside a larger expression, promise started then awaited after busy work / a sleep / another awaited task (so the awaited promise is sometimes already rejected, sometimes still pending when the await executes, and sometimes awaited synchronously from a plain function), 0-2 background tasks competing for the workers; the innermost function throws; x pool size 1-4 x one schedule. Oracle: the uncaught error reaches the top level with a stack trace that lists exactly the generated chain, outermost first, each frame with the function name and the line of its call / await / throw, on every path (AWAIT fast path, continuation resume, AWAIT_SYNC). Non-trivial: >= 2 tasks; distinct: hash of (source, pool, schedule trace)",
		Assumptions: append([]string{"the sequential clauses of the property (plain call chains, generators, line tables) are not claimed: they do not depend on a schedule"}, commonAssumptions...),
		Real:        append([]string{"vm.Thread.BuildStackTrace / BuildStackTracePrepend", "AWAIT / AWAIT_RESULT / AWAIT_SYNC error paths", "vm.Promise rejection with stack trace", "vm.ThreadPool"}, realAll...),
		Stub:        stubAll,
	}
}

#!/usr/bin/env python3
"""Writes /verif/MANIFEST.json from the tables below and validates it."""
import json, sys

TRUST = ("Trusted base: Go runtime and testing/synctest (quiescence + fake clock), Go channel/mutex/WaitGroup semantics, "
         "porcupine v1.3.0 where used, the instrumenter's rewrites being behaviour-preserving, the workload reference "
         "evaluators. Preemption at Go statement / loop / function entry / VM instruction granularity; sampled, not enumerated.")

CLAIMED = {
    "C01": dict(
        engine="E-CHAOS",
        technique="deterministic simulation with fault injection: concurrent programs run under hostile knobs, seeded schedules including starvation, cancellation at a seeded tick and clock jumps; crash monitor (Go panic in any task, worker process death) as the only oracle",
        text="Claimed as a slice: programs whose crash-freedom depends on a coincidence the simulator controls (schedule, cancellation instant, timers, knob extremes, primitives used across threads). Thirteen chaos templates plus the generators of the other engines run with small stacks (the smallest ones in recycled worker processes), pool and queue of 1, a cancel at a PRNG-chosen tick and clock jumps; a Go panic that reaches the top of any goroutine, or the death of the worker process, is a violation (stack-limit reports excepted). Sequential crash-freedom over all programs is input generation and is not claimed. Exploration level.",
        design_ref="DESIGN.md 5.10",
    ),
    "C10": dict(
        engine="E-KNOB",
        technique="deterministic simulation with randomised tuning knobs and fault injection: knob vector (stack sizes, pool, queue, presize) drawn per run, forced value-stack reallocations at seeded calls (failpoint), seeded schedules; differential oracle against the default configuration",
        text="Deterministic programs that stress what the knobs touch (deep recursion with live closures, generators and async bodies that assign locals between a reallocation and their next suspension, native methods calling back into bytecode, string interpolations and map literals whose operands run user bytecode, the generated plain / generator / async bodies of E-BODY, async DAGs, large literals, bulk symbols) run under a knob vector drawn per run and up to five forced reallocations of the value stack at PRNG-chosen calls; stdout and error must equal the run at default sizes unless a stack limit is reported. Initial stacks below 64 slots are a listed known finding (drawn rarely, each in a worker process that is recycled afterwards). Exploration level.",
        design_ref="DESIGN.md 5.7",
    ),
    "C11": dict(
        engine="E-CHK",
        technique="deterministic simulation: seeded token scheduler over the instrumented type checker and compiler, PRNG-controlled map order, differential oracle against the sequential configuration",
        text="Seeded search over interleavings of the concurrently checked (and compiled) method bodies at MethodCheckConcurrencyLimit 2/3/8/100 for generated multi-method programs, with Go map iteration order as a further explored dimension. Each run is compared with the same source checked at limit 1: diagnostic multiset, acceptance, the behaviour of the compiled program on the VM and the normalised bytecode of every function must be equal, and no task may panic. Programs include forward references, recursion, constants initialised from methods that share helpers, singleton and instance methods of one name, fresh symbol literals. Exploration level; the data-race clause is decided only through its statement-granularity consequences.",
        design_ref="DESIGN.md 5.3",
    ),
    "C15": dict(
        engine="E-BODY",
        technique="deterministic simulation: generated bodies run as plain / generator / async variants on pools of size 1-4 under seeded schedules, checked against an independent reference evaluator",
        text="Generated function bodies (three loop forms, early returns, throws, do/catch, do/finally, helper calls that the async variant awaits in place at any operand depth or makes through closures that await) are emitted as def, def * and async def (plus yield-bearing bodies with a list-building twin) and driven to completion under seeded schedules and pool sizes; the printed results of all variants must equal a big-integer reference evaluator, generators must yield in order and then signal the end, every promise must settle exactly once, nothing may deadlock or panic. A closure that shares a local with a body across a suspension is a listed known finding (capture family). Exploration level.",
        design_ref="DESIGN.md 5.2",
    ),
    "C16": dict(
        engine="E-PROM",
        technique="deterministic simulation: promise DAG programs under seeded interleavings of AWAIT / continuation registration / settlement with pool 1-4 and queue capacity 1..4N, lost-wake-up and exactly-once oracle",
        text="Generated programs build promise DAGs (leaf, timeout, throwing, natively resolved, chained, guarded tasks, joins whose awaits sit at different operand depths, Promise.wait, go threads awaiting synchronously, marathon programs with thousands of suspensions per worker) and run under seeded schedules with statement-level preemption inside Promise, ThreadPool, threadWorker and the AWAIT instructions. The run must end, each awaiter must be resumed exactly once (token multiset equals the reference evaluator's). Queue saturation below the enqueue bound is a listed known finding; any other deadlock or token anomaly is a violation. Exploration level.",
        design_ref="DESIGN.md 5.1",
    ),
    "C25": dict(
        engine="E-SYNC",
        technique="deterministic simulation: seeded schedules over real channels, mutexes, wait groups and Once (Go API clients and generated Elk programs), porcupine linearizability against FIFO-with-close, contract oracles, misuse sequences",
        text="Go-API clients drive ChannelOfValue (peer close and cancellation at arbitrary steps) with porcupine checking the history against a FIFO queue with a closed flag; Mutex/RWMutex/WaitGroup clients carry shadow state that exposes any exclusion or counting violation; cancel-only histories require the cancellation alone to release every context-aware operation; lock/unlock misuse histories are checked with porcupine; generated Elk programs cover producers/consumers, select (also on channels closed by a peer, and one select site shared by several threads), lock-protected updates, Once and Once.memo, WaitGroup (also start/end races) and misuse sequences with documented-error expectations; a process death (Go fatal error) is attributed and reported. Exploration level.",
        design_ref="DESIGN.md 5.4",
    ),
    "C26": dict(
        engine="E-SYM",
        technique="deterministic simulation: seeded token scheduler over instrumented real code + porcupine linearizability against a sequential intern table",
        text="Seeded search over interleavings of 2-5 client tasks calling the real SymbolTableStruct (fresh and global) with statement-level preemption inside every method; every history is checked for linearizability against a sequential intern table and for the bijection invariants. Exploration: evidence about the schedules sampled, each replayable from its file.",
        design_ref="DESIGN.md 5.5",
    ),
    "C27": dict(
        engine="E-REPL",
        technique="deterministic simulation with fault injection: sessions of the real REPL evaluator with checker-rejected inputs and an injected checker failure at a seeded phase boundary as the faults, under seeded schedules of the parallel method checks; differential oracles (session without the rejected inputs, batch run of the accepted prefix)",
        text="Generated sessions are fed to the real repl evaluator inside the simulator. The faults are inputs the checker rejects after partial work and a failpoint that fails a valid input at the k-th phase boundary of Checker.CheckProgram, which exercises the snapshot/restore path at every depth. Every other input must behave exactly as in the session with the rejected inputs removed, and accepted inputs must print what a batch run of the accepted prefix prints (compared whenever only pure definitions precede the last redefinition; statically bound call sites after a redefinition are a listed known finding). Sessions cover methods, classes, mixins, constants, typedefs, closures over top-level locals, using, runtime errors. Exploration level.",
        design_ref="DESIGN.md 5.8",
    ),
    "C32": dict(
        engine="E-TRACE",
        technique="deterministic simulation: generated call chains that cross promises, run under seeded schedules, pool sizes 1-4, timers and competing tasks, so that every await is reached with the promise already rejected, still pending or awaited synchronously; oracle: the stack trace of the uncaught error equals the chain known by construction",
        text="Claimed as a slice: the clause about errors rethrown across promises, whose outcome depends on which path the await takes (already-settled fast path, suspension and resumption by the settling thread, synchronous await from a plain function) and therefore on schedule, pool size and timers. Generated chains of 2-6 plain and async functions with five call/await forms throw in the innermost function; the trace that reaches the top level must list exactly the generated frames, outermost first, with function names and the lines of the calls, awaits and the throw. The sequential clauses (plain chains, generators, line tables) are not claimed. Exploration level.",
        design_ref="DESIGN.md 5.11",
    ),
    "C33": dict(
        engine="E-CANCEL",
        technique="deterministic simulation with fault injection: context cancellation injected at a seeded scheduler tick into 47 non-terminating program shapes compiled with abort checks (single-shot or as a later input of an incremental session) and into Go-API clients of the context-aware channel operations; bounded liveness under fair scheduling after the fault",
        text="Each case compiles a non-terminating shape the way the REPL does, runs it in the main thread or a go thread, cancels the context at a PRNG-chosen tick (immediately if everything is blocked) and then requires, under fair round-robin, that the main thread ends with ExecutionAbortedError and every go thread ends within 600000 scheduler ticks. Mutex#lock, the one blocking operation left without context support, is a listed known finding keyed by shape (sleep, the synchronous await and WaitGroup#wait were repaired). Exploration level.",
        design_ref="DESIGN.md 5.6",
    ),
    "C34": dict(
        engine="E-TEST",
        technique="deterministic simulation: the real test runner driven with generated suite trees and filters under seeded shuffle seeds, reporter stalls and event-queue capacities; exactly-once and exit-status oracle against a reference selection",
        text="Slice of the property: exactly-once execution of the selected cases and the exit status, for every shuffle seed, reporter interleaving and event channel capacity. Generated suite trees (hooks at any position, failing before_each hooks) with a grep and up to three path[:line] filters run through the real ext/std/test runner with the simulator's own recording reporter as a task that drains the bounded channel as slowly as the scheduler lets it or sleeps in simulated time; every case must also finish with the status its body and hooks imply. An empty selection exiting with failure is a listed known finding. Exploration level.",
        design_ref="DESIGN.md 5.9",
    ),
}

PLANNED = {}

NA = {
    "C02": "pure function of one program run by one thread: no schedule, clock or fault in what it quantifies over (type soundness per program)",
    "C03": "quantifies over input bytes of one sequential front-end pass; nothing for a scheduler or fault injector to vary",
    "C04": "lexing is a pure function of the source string",
    "C05": "print/reparse round trip is a pure function of a syntax tree",
    "C06": "Int arithmetic is a pure function of two integers",
    "C07": "fixed-width wrap / IEEE floats are pure functions of operands",
    "C08": "differential between compilation strategies of one sequential expression; no nondeterminism involved",
    "C09": "differential between two sequential executions (Go backend vs VM); needs an external Go build per program and has no schedule in it",
    "C12": "metamorphic over source text; sequential (the schedule dimension of checker verdicts is C11)",
    "C13": "sequential program semantics of closures; the across-stack-growth clause is exercised by C10's workloads but C13 itself is not a simulation target",
    "C14": "sequential reference-interpreter comparison of control flow",
    "C17": "single-threaded operation histories on collections with no concurrent contract",
    "C18": "pure function of value pairs and triples",
    "C19": "pure function of a value",
    "C20": "pure function of a string and arguments",
    "C21": "pure function of a pattern and a subject",
    "C22": "pure functions of dates; the only clock use is outside the stated round trips",
    "C23": "sequential; channel iteration under schedules is covered inside C25",
    "C24": "single-threaded histories, as C17",
    "C28": "a static table compared with single calls",
    "C29": "a static check of compiler output; its schedule dependence (patched call sites) is covered behaviourally by C11",
    "C30": "sequential program semantics of pattern matching",
    "C31": "sequential macro expansion semantics",
}

ALL = ["C%02d" % i for i in range(1, 35)]

def main():
    checks = []
    for pid in sorted(CLAIMED):
        c = CLAIMED[pid]
        checks.append({
            "property_id": pid,
            "quick_cmd": f"bin/vcheck run {pid} --tier quick",
            "thorough_cmd": f"bin/vcheck run {pid} --tier thorough",
            "evidence_file": f"/verif/evidence/{pid}.json",
            "replay_cmd_template": "bin/vcheck replay {path}",
            "engine": c["engine"],
            "level_claimed": {"category": "exploration", "text": c["text"], "design_ref": c["design_ref"]},
            "level_note": c.get("note", "") + TRUST,
            "technique": c["technique"],
        })
    na = []
    for pid in ALL:
        if pid in CLAIMED:
            continue
        if pid in PLANNED:
            na.append({"property_id": pid, "reason": "not claimed yet: " + PLANNED[pid]})
        else:
            na.append({"property_id": pid, "reason": NA[pid]})
    engines = {}
    for pid, c in CLAIMED.items():
        engines.setdefault(c["engine"], []).append(pid)
    m = {
        "version": 1,
        "setup_cmd": "sh /verif/setup.sh",
        "hooks": {
            "guard": "none-in-repo (instrumentation is generated into a scratch copy at check build time)",
            "enable": "bin/vcheck copies /repo's working tree to /tmp/elksim/copy, runs bin/instrument (go/packages splicer driven by sim/instrument.json) over it, adds sim/simhook as package github.com/elk-language/elk/simhook, and builds sim/harness against the copy; the copy is deleted after the build. No file in /repo is changed, so there is no guard to switch off.",
            "baseline_off_cmd": "cd /repo && go test -vet=off -count=1 -timeout 25m ./...",
            "source_commits": [],
            "add_only": True,
        },
        "engines": [{"name": n, "path": "/verif/sim/harness", "serves_properties": sorted(p), "kind_free_text": "deterministic simulation engine (seeded scheduler + fault plan + oracle) inside the harness test binary"} for n, p in sorted(engines.items())],
        "checks": checks,
        "not_applicable": na,
        "notes": "All checks: exit 0 held, 1 with VIOLATION line, 2 harness/build trouble. VERIF_SEED selects the base seed; VERIF_BUDGET_MS overrides the exploration budget. Known findings: /verif/known_findings.json.",
    }
    json.dump(m, open("/verif/MANIFEST.json", "w"), indent=1)
    try:
        import jsonschema
        jsonschema.validate(m, json.load(open("/root/.vp/MANIFEST.schema.json")))
        print("MANIFEST.json valid:", len(checks), "checks,", len(na), "not applicable")
    except ImportError:
        print("jsonschema not available; written without validation")

if __name__ == "__main__":
    main()
